#!/bin/bash
# Run the repository's pinned test suite (guard off) on $1 (default /repo); prints the summary line.
repo="${1:-/repo}"
cd "$repo" && env -u COBALD_VERIF PYTHONPATH="$repo/src" /venv/bin/python -m pytest -ra -q -p no:cacheprovider --timeout=${TEST_TIMEOUT:-900} --continue-on-collection-errors 2>&1 | tail -4
