#!/venv/bin/python
"""Validate a check against a deliberate property-breaking change.

    tools/breaktest.py C06 breaks/C06/clamp_order.diff [--tier quick] [--no-tests] [--seed N]

Makes a scratch copy of the repository (outside /repo and /verif), applies the patch,
runs the pinned test suite on the copy (the break must survive it), runs the check with
VERIF_REPO pointing at the copy and expects exit 1 with a VIOLATION line.  The copy is
removed afterwards.  Exit 0 = break detected, 1 = missed, 2 = break does not pass the
repository's tests / does not apply.
"""
import argparse
import os
import shutil
import subprocess
import sys
import tempfile
import time

VERIF = os.path.dirname(os.path.dirname(os.path.abspath(__file__)))


def main():
    ap = argparse.ArgumentParser()
    ap.add_argument("property")
    ap.add_argument("patch")
    ap.add_argument("--tier", default="quick")
    ap.add_argument("--no-tests", action="store_true")
    ap.add_argument("--seed", default=None)
    ap.add_argument("--keep", action="store_true")
    ap.add_argument("--quiet", action="store_true")
    args = ap.parse_args()
    repo = os.environ.get("VERIF_REPO", "/repo")
    tmp = tempfile.mkdtemp(prefix="cobald-break-")
    try:
        copy = os.path.join(tmp, "repo")
        subprocess.run(["git", "clone", "-q", "--no-hardlinks", repo, copy], check=True)
        # uncommitted changes in the repo (there should be none) are not carried over
        ap_ = subprocess.run(
            ["git", "-C", copy, "apply", "--whitespace=nowarn", os.path.abspath(args.patch)],
            capture_output=True, text=True,
        )
        if ap_.returncode != 0:
            print("PATCH DOES NOT APPLY:", ap_.stderr.strip())
            return 2
        if not args.no_tests:
            t = subprocess.run(
                [os.path.join(VERIF, "tools", "baseline.sh"), copy], env=dict(os.environ, TEST_TIMEOUT="60"),
                capture_output=True, text=True,
            )
            last = t.stdout.strip().splitlines()[-1] if t.stdout.strip() else ""
            if " passed" not in last or "failed" in last or "error" in last:
                print("BREAK DOES NOT PASS THE TEST SUITE:", last)
                return 2
        env = dict(os.environ, VERIF_REPO=copy)
        if args.seed is not None:
            env["VERIF_SEED"] = args.seed
        t0 = time.time()
        c = subprocess.run(
            [os.path.join(VERIF, "check"), args.property, "--tier", args.tier],
            capture_output=True, text=True, env=env, cwd=VERIF,
        )
        dt = time.time() - t0
        lines = c.stdout.strip().splitlines()
        viol = [ln for ln in lines if ln.startswith("VIOLATION")]
        name = os.path.basename(args.patch)
        if c.returncode == 1 and viol:
            what = [ln for ln in lines if ln.startswith("  what:")]
            print("DETECTED %s %s in %.1fs: %s" % (args.property, name, dt, (what[0][8:160] if what else "")))
            return 0
        print("MISSED %s %s (exit %s, %.1fs): %s" % (args.property, name, c.returncode, dt, lines[-1] if lines else c.stderr[-300:]))
        if not args.quiet:
            print(c.stdout[-1500:], c.stderr[-1500:])
        return 1
    finally:
        if not args.keep:
            shutil.rmtree(tmp, ignore_errors=True)


if __name__ == "__main__":
    sys.exit(main())
