#!/venv/bin/python
"""Run every break-test (breaks/*/*.diff) and every kept seeded mutant against its check and
print a markdown table: which check catches which change.  Usage: tools/catch_table.py [jobs]"""
import concurrent.futures
import glob
import json
import os
import subprocess
import sys

VERIF = os.path.dirname(os.path.dirname(os.path.abspath(__file__)))
jobs = int(sys.argv[1]) if len(sys.argv) > 1 else 3
only = set(sys.argv[sys.argv.index("--only") + 1].split(",")) if "--only" in sys.argv else None  # seeded ids / break names
tasks = []
for path in sorted(glob.glob(os.path.join(VERIF, "breaks", "*", "*.diff"))):
    pid = os.path.basename(os.path.dirname(path))
    tasks.append(("break", pid, path))
for path in sorted(glob.glob(os.path.join(VERIF, "seeded", "*", "meta.json"))):
    d = os.path.dirname(path)
    pid, mid = os.path.basename(d).split("-")
    tasks.append(("seeded", pid, d, mid))


def run(task):
    if task[0] == "break":
        p = subprocess.run([os.path.join(VERIF, "tools", "breaktest.py"), task[1], task[2], "--quiet", "--no-tests"], capture_output=True, text=True)
        line = (p.stdout.strip().splitlines() or [""])[0]
        return task, line.split(" ", 1)[0], line
    p = subprocess.run([os.path.join(VERIF, "tools", "vet_seeded.py"), task[1], task[3], "--check-only"], capture_output=True, text=True)
    line = (p.stdout.strip().splitlines() or [""])[-1]
    return task, line.split(" ", 1)[0], line


if only is not None:
    tasks = [t for t in tasks if (os.path.basename(t[2]) if t[0] == "seeded" else os.path.basename(t[2])[:-5]) in only]
rows = []
with concurrent.futures.ThreadPoolExecutor(max_workers=jobs) as pool:
    for task, verdict, line in pool.map(run, tasks):
        rows.append((task, verdict, line))
        print(line[:200], file=sys.stderr)
print("| property | change | origin | verdict of `./check <id>` | first witness |")
print("|---|---|---|---|---|")
for task, verdict, line in rows:
    if task[0] == "break":
        name = os.path.basename(task[2])[:-5]
        origin = "own break-test"
        summary = name.replace("_", " ")
    else:
        meta = json.load(open(os.path.join(task[2], "meta.json")))
        name = os.path.basename(task[2])
        origin = "sub-agent (seeded/%s)" % name
        summary = meta.get("summary", "")[:160].replace("|", "/").replace("\n", " ")
    witness = line.split(":", 1)[1].strip()[:140].replace("|", "/") if ":" in line else ""
    print("| %s | %s | %s | %s | %s |" % (task[1], summary, origin, verdict, witness))
