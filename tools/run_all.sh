#!/bin/bash
# Run every check of one tier in sequence; prints one verdict line per property.  tools/run_all.sh [quick|thorough] [seed]
cd "$(dirname "$0")/.."
tier="${1:-quick}"; export VERIF_SEED="${2:-0}"
rc=0
for p in C01 C02 C03 C04 C05 C06 C07 C08 C09 C10 C11 C12 C13 C14 C15 C16 C17 C18 C19; do
  out=$(./check $p --tier $tier 2>&1); code=$?
  echo "$out" | grep -E "^(VIOLATION|INCONCLUSIVE|  what)" | head -6 | cut -c1-400
  echo "[$code] $(echo "$out" | tail -1 | cut -c1-110)"
  [ $code -ne 0 ] && rc=1
done
exit $rc
