#!/venv/bin/python
"""Regenerate MANIFEST.json from the property modules that exist (keeps it valid at all times)."""
import importlib
import json
import os
import sys

VERIF = os.path.dirname(os.path.dirname(os.path.abspath(__file__)))
sys.path.insert(0, VERIF)
sys.path.insert(0, os.environ.get("VERIF_REPO", "/repo") + "/src")
sys.path.insert(0, VERIF + "/plugins")
from vlib.main import PROPS  # noqa: E402

TEXT = json.load(open(os.path.join(VERIF, "tools", "manifest_text.json")))
checks, missing = [], []
for pid, modname in sorted(PROPS.items()):
    path = os.path.join(VERIF, *modname.split(".")) + ".py"
    if not os.path.exists(path):
        missing.append(pid)
        continue
    mod = importlib.import_module(modname)
    t = TEXT.get(pid, {})
    checks.append(
        {
            "property_id": pid,
            "quick_cmd": "./check %s --tier quick" % pid,
            "thorough_cmd": "./check %s --tier thorough" % pid,
            "evidence_file": "/verif/evidence/%s.json" % pid,
            "replay_cmd_template": "./check %s --replay {path}" % pid,
            "engine": mod.META.get("engine", ""),
            "level_claimed": {
                "category": mod.META["level"],
                "text": t.get("text", mod.META["rule"]),
                "design_ref": "DESIGN.md section 4, %s" % pid,
            },
            "level_note": t.get("note", "; ".join(mod.META.get("assumptions", []))),
            "technique": t.get("technique", "runtime monitoring: " + mod.META.get("engine", "")),
        }
    )
fixes = [
    line.split()[0]
    for line in os.popen("git -C /repo log --format='%h %s' f3fbc69..HEAD").read().splitlines()
]
manifest = {
    "version": 1,
    "setup_cmd": "/venv/bin/python -c \"import trio, yaml, entrypoints, toposort, sniffio; print('ok')\"",
    "hooks": {
        "guard": "COBALD_VERIF",
        "enable": "no source hooks exist: the checks import /repo/src as it is (PYTHONPATH=$VERIF_REPO/src); COBALD_VERIF=1 is exported by ./check but nothing in the repository reads it",
        "baseline_off_cmd": "cd /repo && env -u COBALD_VERIF /venv/bin/python -m pytest -ra -q -p no:cacheprovider --timeout=900 --continue-on-collection-errors",
        "source_commits": [],
        "add_only": True,
    },
    "engines": [
        {"name": "E1 runtime scenario engine", "path": "vlib/rt", "serves_properties": ["C01", "C02", "C03", "C10", "C11", "C12"], "kind_free_text": "real ServiceRunner in worker processes, scripted driver thread, sequence-numbered event log written by payloads and client-boundary wrappers, sys.monitoring delay injection, faulthandler watchdog"},
        {"name": "E2 virtual-time engine", "path": "vlib/vt.py", "serves_properties": ["C08", "C09", "C15"], "kind_free_text": "real run() coroutines under trio MockClock next to a scripted environment task; recording pools timestamp every access"},
        {"name": "E3 reference-model engine", "path": "vlib/core.py", "serves_properties": ["C04", "C05", "C06", "C07", "C08", "C14", "C16", "C17", "C18", "C19"], "kind_free_text": "seeded generators drive the real classes; recording doubles + independent reference computation after every operation"},
        {"name": "E4 process-level engine", "path": "vlib/proc.py", "serves_properties": ["C13", "C18"], "kind_free_text": "python -m cobald.daemon children with generated configurations; exit status, stderr and an event file written by instrumented plugin classes"},
    ],
    "checks": checks,
    "notes": "All checks are runtime monitors over executions of the real code in /repo/src; see DESIGN.md. Exit 2 + 'INCONCLUSIVE' means the deciding monitor was not reached (never expected on the unchanged tree). Repository repairs ('fix:' commits): %s." % ", ".join(fixes),
    "not_applicable": [
        {"property_id": pid, "reason": "check not built yet (planned, see DESIGN.md section 4)"}
        for pid in missing
    ],
}
json.dump(manifest, open(os.path.join(VERIF, "MANIFEST.json"), "w"), indent=1)
print("checks:", [c["property_id"] for c in checks], "missing:", missing)
