#!/venv/bin/python
"""Confirm a sub-agent's property-breaking change and keep it under /verif/seeded/.

    tools/vet_seeded.py C07 m1 [--from /tmp/wt/C07/mutants/m1] [--check-only]

Steps (all in a scratch clone of /repo outside /repo and /verif, removed afterwards):
  1. demo.py passes (exit 0) on the unchanged clone;
  2. patch.diff applies; the 85 pinned tests still pass with it;
  3. demo.py fails (exit != 0) with the patch;
  4. the /verif check of the property (quick tier; thorough if quick misses) is run against
     the patched clone and its verdict recorded.
Result is written to /verif/seeded/<Cxx>-<mN>/ (patch.diff, demo.py, meta.json).
With --check-only steps 1-3 are skipped (re-run of the check against a kept mutant).
"""
import argparse
import json
import os
import shutil
import subprocess
import sys
import tempfile
import time

VERIF = os.path.dirname(os.path.dirname(os.path.abspath(__file__)))
PY = "/venv/bin/python"


def run(cmd, **kw):
    return subprocess.run(cmd, capture_output=True, text=True, **kw)


def main():
    ap = argparse.ArgumentParser()
    ap.add_argument("property")
    ap.add_argument("mutant")
    ap.add_argument("--from", dest="src", default=None)
    ap.add_argument("--check-only", action="store_true")
    ap.add_argument("--tier", default=None)
    args = ap.parse_args()
    pid, mid = args.property, args.mutant
    kept = os.path.join(VERIF, "seeded", "%s-%s" % (pid, mid))
    src = args.src or (kept if args.check_only or os.path.exists(kept) and not os.path.exists("/tmp/wt/%s/mutants/%s" % (pid, mid)) else "/tmp/wt/%s/mutants/%s" % (pid, mid))
    patch = os.path.join(src, "patch.diff")
    demo = os.path.join(src, "demo.py")
    meta = json.load(open(os.path.join(src, "meta.json")))
    tmp = tempfile.mkdtemp(prefix="cobald-seeded-")
    ran = []
    try:
        clone = os.path.join(tmp, "repo")
        subprocess.run(["git", "clone", "-q", "--no-hardlinks", "/repo", clone], check=True)
        env = dict(os.environ, PYTHONPATH=clone + "/src")
        shutil.copy(demo, os.path.join(tmp, "demo.py"))
        if not args.check_only:
            d0 = run([PY, "demo.py"], cwd=tmp, env=env, timeout=180)
            ran.append("demo on unchanged clone: exit %d" % d0.returncode)
            if d0.returncode != 0:
                print("REJECT %s-%s: demo fails on the unchanged tree: %s" % (pid, mid, (d0.stdout + d0.stderr)[-400:]))
                return 2
        a = run(["git", "-C", clone, "apply", "--whitespace=nowarn", os.path.abspath(patch)])
        if a.returncode != 0:
            a = run(["git", "-C", clone, "apply", "--3way", "--whitespace=nowarn", os.path.abspath(patch)])
        if a.returncode != 0:
            print("REJECT %s-%s: patch does not apply: %s" % (pid, mid, a.stderr[-300:]))
            return 2
        if not args.check_only:
            t = run([os.path.join(VERIF, "tools", "baseline.sh"), clone], env=dict(os.environ, TEST_TIMEOUT="60"))
            last = t.stdout.strip().splitlines()[-1] if t.stdout.strip() else ""
            ran.append("pinned test suite with the change: %s" % last)
            if " passed" not in last or "failed" in last or "error" in last:
                print("REJECT %s-%s: test suite does not pass: %s" % (pid, mid, last))
                return 2
            d1 = run([PY, "demo.py"], cwd=tmp, env=env, timeout=180)
            ran.append("demo with the change: exit %d" % d1.returncode)
            if d1.returncode == 0:
                print("REJECT %s-%s: demo passes with the change" % (pid, mid))
                return 2
            meta["demo_output_with_change"] = (d1.stdout + d1.stderr)[-600:]
        detected, verdicts = None, []
        for tier in ([args.tier] if args.tier else ["quick", "thorough"]):
            t0 = time.time()
            c = run([os.path.join(VERIF, "check"), pid, "--tier", tier], cwd=VERIF, env=dict(os.environ, VERIF_REPO=clone))
            lines = c.stdout.strip().splitlines()
            what = [ln.strip() for ln in lines if ln.startswith("  what:")]
            ok = c.returncode == 1 and any(ln.startswith("VIOLATION") for ln in lines)
            verdicts.append({"tier": tier, "exit": c.returncode, "seconds": round(time.time() - t0, 1),
                             "first_witness": what[0][:300] if what else None,
                             "last_line": lines[-1][:300] if lines else c.stderr[-300:]})
            if ok:
                detected = tier
                break
        meta.update({"property": pid, "id": "%s-%s" % (pid, mid), "ran": ran or meta.get("ran", []),
                     "check_verdicts": verdicts, "detected_by": ("./check %s --tier %s" % (pid, detected)) if detected else None})
        os.makedirs(kept, exist_ok=True)
        if os.path.abspath(src) != os.path.abspath(kept):
            shutil.copy(patch, os.path.join(kept, "patch.diff"))
            shutil.copy(demo, os.path.join(kept, "demo.py"))
        json.dump(meta, open(os.path.join(kept, "meta.json"), "w"), indent=1)
        print("%s %s-%s: %s" % ("DETECTED(%s)" % detected if detected else "MISSED", pid, mid,
                                (verdicts[-1]["first_witness"] or verdicts[-1]["last_line"])))
        return 0 if detected else 1
    finally:
        shutil.rmtree(tmp, ignore_errors=True)


if __name__ == "__main__":
    sys.exit(main())
