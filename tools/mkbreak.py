#!/venv/bin/python
"""Create breaks/<Cxx>/<name>.diff from exact string replacements in a repository file.

    tools/mkbreak.py C06 clamp_order src/cobald/decorator/standardiser.py OLD NEW [OLD2 NEW2 ...]
"""
import difflib
import os
import sys

VERIF = os.path.dirname(os.path.dirname(os.path.abspath(__file__)))
pid, name, rel = sys.argv[1:4]
pairs = sys.argv[4:]
repo = os.environ.get("VERIF_REPO", "/repo")
src = open(os.path.join(repo, rel)).read()
new = src
for old, rep in zip(pairs[0::2], pairs[1::2]):
    old, rep = old.encode().decode("unicode_escape"), rep.encode().decode("unicode_escape")
    if new.count(old) != 1:
        sys.exit("pattern occurs %d times: %r" % (new.count(old), old))
    new = new.replace(old, rep)
diff = "".join(
    difflib.unified_diff(
        src.splitlines(True), new.splitlines(True), "a/" + rel, "b/" + rel
    )
)
out = os.path.join(VERIF, "breaks", pid)
os.makedirs(out, exist_ok=True)
path = os.path.join(out, name + ".diff")
mode = "a" if os.path.exists(path) and os.environ.get("APPEND") else "w"
with open(path, mode) as f:
    f.write(diff)
print(path)
