#!/venv/bin/python
"""Merge catch-table rows: tools/merge_table.py base.md update.md [drop_id ...] > merged.md
Rows of update.md replace rows of base.md with the same (property, origin-or-name) key; new ones are appended; rows whose
seeded id is listed as drop_id are removed."""
import re
import sys

def key(row):
    cells = [c.strip() for c in row.strip().strip("|").split("|")]
    m = re.search(r"seeded/([^)]+)\)", cells[2])
    return (cells[0], m.group(1) if m else cells[1])

base, update, drop = sys.argv[1], sys.argv[2], set(sys.argv[3:])
rows, order = {}, []
header = []
for path in (base, update):
    for line in open(path):
        if not line.startswith("|"):
            continue
        if line.startswith("| property") or line.startswith("|---"):
            if path == base:
                header.append(line)
            continue
        k = key(line)
        if k not in rows:
            order.append(k)
        rows[k] = line
sys.stdout.write("".join(header))
for k in sorted(order, key=lambda k: (k[0], 0 if not re.match(r"C\d\d-m\d+", k[1]) else 1, int(re.sub(r"\D", "", k[1].split("-m")[-1]) or 0) if "-m" in k[1] else 0, k[1])):
    if k[1] in drop:
        continue
    sys.stdout.write(rows[k])
