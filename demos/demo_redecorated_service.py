"""A subclass of a service class that is declared a service again is started twice, or in its base's flavour, when
the accept loop polls between the two decorators' registrations.

service() registers a ServiceUnit in __new__; for a re-decorated subclass the base's __new__ registers a unit of its
own first, which only dies when the outer decorator overwrites instance.__service_unit__.  If the thread constructing
the instance is preempted in between (forced here by a pause after the first registration - no cobald code changes),
the accept loop sees the base's unit and starts it.
"""
import asyncio
import sys
import threading
import time

import sniffio
import trio

from cobald.daemon.runners import service as service_module
from cobald.daemon.runners.service import ServiceRunner, ServiceUnit, service

started = []


@service(flavour=trio)
class Base:
    async def run(self):
        started.append((type(self).__name__, sniffio.current_async_library()))
        await trio.sleep(30)


@service(flavour=trio)
class Again(Base):
    pass


async def asyncio_run(self):
    started.append((type(self).__name__, sniffio.current_async_library()))
    await asyncio.sleep(30)


@service(flavour=asyncio)
class Moved(Base):
    run = asyncio_run


real_init = ServiceUnit.__init__
registrations = {}


def slow_init(self, svc, flavour):
    real_init(self, svc, flavour)
    n = registrations[id(svc)] = registrations.get(id(svc), 0) + 1
    if n == 1 and type(svc) is not Base:
        time.sleep(0.3)  # preempted right after the base decorator's registration


ServiceUnit.__init__ = slow_init
runner = ServiceRunner(accept_delay=0.01)
thread = threading.Thread(target=runner.accept, daemon=True)
thread.start()
runner.running.wait(5)
a, m = Again(), Moved()
time.sleep(0.5)
runner.shutdown()
thread.join(5)
want = sorted([("Again", "trio"), ("Moved", "asyncio")])
if sorted(started) != want:
    print("FAIL: started %r, expected %r" % (sorted(started), want))
    sys.exit(1)
print("ok")
