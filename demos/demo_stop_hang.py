"""shutdown()/stop() whose request reaches the event loop in the instant before the loop is closed never returns.

Schedule: thread B is inside BaseRunner.stop(), past the `_stopped` check, and is preempted; the runtime ends
(failure or another shutdown); B resumes and hands its close request to the loop after the loop has run for the
last time but before loop.close() - the request is dropped with the loop's ready queue, the future never resolves.
The two preemption points are forced with events; no cobald code is changed.
"""
import asyncio, threading, time, sys
from cobald.daemon.runners.service import ServiceRunner
from cobald.daemon.runners.base_runner import BaseRunner

about_to_close, scheduled = threading.Event(), threading.Event()
late_thread = {}

real_rcts = asyncio.run_coroutine_threadsafe
def delayed_rcts(coro, loop):
    if threading.current_thread() is late_thread.get("t"):
        about_to_close.wait(10)          # preempted until the loop has run for the last time
        try:
            return real_rcts(coro, loop)
        finally:
            scheduled.set()
    return real_rcts(coro, loop)
asyncio.run_coroutine_threadsafe = delayed_rcts

from asyncio import unix_events
real_close = unix_events._UnixSelectorEventLoop.close
def close(self):
    if late_thread.get("armed") and not about_to_close.is_set():
        about_to_close.set()
        scheduled.wait(10)
    return real_close(self)
unix_events._UnixSelectorEventLoop.close = close

runner = ServiceRunner(accept_delay=0.01)
main = threading.Thread(target=runner.accept, daemon=True)
main.start()
runner.running.wait(5)
done = threading.Event()
def late():
    runner.shutdown()
    done.set()
t = threading.Thread(target=late, daemon=True)
late_thread["t"] = t
late_thread["armed"] = True
t.start()
time.sleep(0.3)                  # B is now parked inside stop(), past the `_stopped` check
runner.shutdown()                # a second shutdown ends the runtime
main.join(10)
if not done.wait(5):
    print("FAIL: shutdown() of the first caller has not returned 5 s after accept() ended")
    sys.exit(1)
print("ok")
