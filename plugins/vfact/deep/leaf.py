from vlib import faclog


def make(*args, **kwargs):
    return faclog.call("vfact.deep.leaf.make", args, kwargs)
