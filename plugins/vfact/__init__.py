"""Factory package used by the C19/C05 checks: every way a dotted name can resolve."""
from vlib import faclog

CONSTANT = 42


class Settings(dict):
    """A settings object derived from a builtin type (no introspectable signature)."""


def make(*args, **kwargs):
    return faclog.call("vfact.make", args, kwargs)


def give_list(*args, **kwargs):
    """A factory whose product is a plain list that happens to hold a (quoted) definition: data, not a to-do."""
    return faclog.call("vfact.give_list", args, kwargs, product=[1, {"__type__": "vfact.boom", "quoted": True}, "x"])


def give_quoted(*args, **kwargs):
    """A factory whose product is a mapping that looks like a definition (e.g. a template to be stored)."""
    return faclog.call("vfact.give_quoted", args, kwargs, product={"__type__": "vfact.boom", "quoted": True})


def strict(a, b=2, *, nid, c=None):
    return faclog.call("vfact.strict", (a, b), {"nid": nid, "c": c})


def intonly(x=0, *, nid):
    """Picky about the type of its argument: 1 is fine, True and 1.0 are not (they compare equal to 1)."""
    if type(x) is not int:
        raise TypeError("x must be an int, not %s" % type(x).__name__)
    return faclog.call("vfact.intonly", (), {"nid": nid, "x": x})


class FieldError(ValueError):
    """A validation error that carries a location of its own, as many libraries' errors do."""

    def __init__(self, message, where):
        super().__init__(message)
        self.where = where


def boom_where(*args, **kwargs):
    raise FieldError("field 'rate' out of range", where="rate")


def _raiser(exc_type, *exc_args):
    def factory(*args, **kwargs):
        if exc_type is AssertionError:
            assert not args and not kwargs and False, "settings out of range"
        raise exc_type(*exc_args)

    return factory


boom_assert = _raiser(AssertionError)
boom_key = _raiser(KeyError, "missing")
boom_type = _raiser(TypeError, "wrong type")
boom_attr = _raiser(AttributeError, "no such attribute")
boom_import = _raiser(ImportError, "no backend")
boom_stop = _raiser(StopIteration)
boom_os = _raiser(OSError, 2, "no such file")
boom_lookup = _raiser(LookupError, "lookup")
boom_runtime = _raiser(RuntimeError, "runtime")
boom_notimpl = _raiser(NotImplementedError)
# failures whose text contains characters that mean something to string formatting
boom_percent = _raiser(ValueError, "utilisation of 120% exceeds the limit of 100%")
boom_pattern = _raiser(ValueError, "cannot render '%s of %(name)s' with {this} and {0}")


_PREPARED = []


def boom_cfg(*args, **kwargs):
    """Raises one prepared, location-less ConfigurationError object every time it is called."""
    from cobald.daemon.config.mapping import ConfigurationError

    if not _PREPARED:
        _PREPARED.append(ConfigurationError(what="backend not available"))
    raise _PREPARED[0]


def boom(*args, **kwargs):
    raise ValueError("factory failed on purpose")


class Thing:
    def __init__(self, *args, **kwargs):
        faclog.call("vfact.Thing", args, kwargs, product=self)

    class Inner:
        def __init__(self, *args, **kwargs):
            faclog.call("vfact.Thing.Inner", args, kwargs, product=self)

        class Innermost:
            def __init__(self, *args, **kwargs):
                faclog.call("vfact.Thing.Inner.Innermost", args, kwargs, product=self)

    @staticmethod
    def build(*args, **kwargs):
        return faclog.call("vfact.Thing.build", args, kwargs)

    @classmethod
    def cbuild(cls, *args, **kwargs):
        return faclog.call("vfact.Thing.cbuild", args, kwargs)
