from vlib import faclog


def make(*args, **kwargs):
    return faclog.call("vfact.sub.make", args, kwargs)


class Klass:
    def __init__(self, *args, **kwargs):
        faclog.call("vfact.sub.Klass", args, kwargs, product=self)

    @staticmethod
    def build(*args, **kwargs):
        return faclog.call("vfact.sub.Klass.build", args, kwargs)
