"""Harness plugin package, registered the way a third-party package would be
(plugins/verif_plugins-1.0.dist-info/entry_points.txt): recording pools / controllers /
decorators, nested-argument tags, an extra section plugin, and service classes that append
to an event file (process-level checks)."""
import asyncio
import copy
import json
import os
import sys
import threading
import time

import trio

from cobald.daemon.plugins import yaml_tag
from cobald.daemon.runners.service import service
from cobald.interfaces import Controller, Pool, PoolDecorator

class Injected(Exception):
    """constructor failure injected by the check"""


LOG = []  # successful constructions, in order
STATE = {"attempts": 0, "fail_at": None}


class Injected(Exception):
    """constructor failure injected by the check"""


FAIL_TYPES = {"Injected": Injected, "KeyError": KeyError, "ValueError": ValueError, "AttributeError": AttributeError,
              "LookupError": LookupError, "RuntimeError": RuntimeError, "OSError": OSError, "IndexError": IndexError,
              "StopIteration": StopIteration, "StopAsyncIteration": StopAsyncIteration, "AssertionError": AssertionError}


def reset(fail_at=None, fail_type="Injected"):
    del LOG[:]
    STATE["attempts"] = 0
    STATE["fail_at"] = fail_at
    STATE["fail_type"] = fail_type
    del EXTRA[:]


def _construct(obj, args, kwargs):
    STATE["attempts"] += 1
    if STATE["fail_at"] is not None and STATE["attempts"] == STATE["fail_at"]:
        raise FAIL_TYPES[STATE.get("fail_type", "Injected")]("constructor of %s failed on purpose" % type(obj).__name__)
    obj.args = args
    obj.kwargs = kwargs
    LOG.append(obj)


class VCtrl(Controller):
    def __init__(self, target, *args, **kwargs):
        super().__init__(target)
        _construct(self, args, kwargs)


class VDeco(PoolDecorator):
    def __init__(self, target, *args, **kwargs):
        super().__init__(target)
        _construct(self, args, kwargs)


class VDeco2(VDeco):
    pass


class VDecoKw(PoolDecorator):
    """A decorator written for the all-keyword `__type__` syntax: its target is a keyword-only parameter."""

    def __init__(self, *args, target, **kwargs):
        super().__init__(target)
        _construct(self, args, kwargs)


class VDecoFalsy(VDeco):
    """A decorator whose truth value is False (e.g. a switch that is turned off)."""

    def __bool__(self):
        return False


class VPool(Pool):
    supply = demand = 0
    utilisation = allocation = 1.0

    def __init__(self, *args, **kwargs):
        _construct(self, args, kwargs)


class VPoolEmpty(VPool):
    """A pool that is also an (empty) container: its truth value is False."""

    def __len__(self):
        return 0


class Site:
    """A namespace class: the recording classes are also reachable two attributes below the module (vplug.Site.VDeco)."""


def _build(cls, *args, **kwargs):
    """An alternative constructor (vplug.VDeco.build)."""
    return cls(*args, **kwargs)


@yaml_tag(eager=True)
def make_pool_now(*args, **kwargs):
    """A tag registered as a plain factory: the pool is built while the YAML is read."""
    pool = VPool(*args, **kwargs)
    pool.seen_at_call = (copy.deepcopy(args), copy.deepcopy(kwargs))
    return pool


class Snapshot:
    def __init__(self, tag, args, kwargs):
        self.tag = tag
        self.orig = (copy.deepcopy(args), copy.deepcopy(kwargs))
        self.final_args = args
        self.final_kwargs = kwargs

    def __repr__(self):
        return "<%s %r %r>" % (self.tag, self.final_args, self.final_kwargs)


def snap_type(*args, **kwargs):
    """A helper object configured as a nested legacy `__type__` mapping inside an element's arguments."""
    return Snapshot("VSnapType", args, kwargs)


def snap_lazy(*args, **kwargs):
    return Snapshot("VSnapLazy", args, kwargs)


@yaml_tag(eager=True)
def snap_eager(*args, **kwargs):
    return Snapshot("VSnapEager", args, kwargs)


def snap_strict(size=1, options=None):
    """A helper with an explicit signature: it takes these two keywords and no others."""
    return Snapshot("VSnapStrict", (), {"size": size, "options": options})


@yaml_tag(eager=True)
def snap_strict_now(size=1, options=None):
    return Snapshot("VSnapStrictNow", (), {"size": size, "options": options})


EXTRA = []


def digest_extra(content):
    EXTRA.append(content)
    return {"digested": content}


# ----------------------------------------------------------------------------- process level
def _event(kind, **data):
    path = os.environ.get("VERIF_EVENT_FILE")
    if not path:
        return
    data.update(kind=kind, t=time.monotonic(), pid=os.getpid(), thread=threading.get_ident())
    line = json.dumps(data) + "\n"
    fd = os.open(path, os.O_WRONLY | os.O_APPEND | os.O_CREAT, 0o644)
    try:
        os.write(fd, line.encode())
    finally:
        os.close(fd)


def _loop_running():
    try:
        asyncio.get_running_loop()
        return True
    except RuntimeError:
        return False


class ServiceAbort(BaseException):
    """A failure that deliberately does not derive from Exception."""


class _SvcMixin:
    """run(): heartbeat forever; optionally fail after `fail_after` beats."""

    def _setup(self, label, kwargs):
        slow = kwargs.pop("slow_init", 0)
        if slow:
            _event("ctor-begin", label=label)
            time.sleep(slow)  # a constructor that takes its time (I/O, remote calls)
        self.label = label
        broken = kwargs.pop("broken", None)
        if broken:
            # a constructor that fails on its (well-formed) arguments, e.g. a value of the wrong type
            raise {"TypeError": TypeError, "KeyError": KeyError, "ValueError": ValueError}[broken]("service %s cannot be built from these settings" % label)
        self.fail_after = kwargs.pop("fail_after", None)
        self.fail_how = kwargs.pop("fail_how", "raise")
        self.period = kwargs.pop("period", 0.05)
        self.flavour_name = kwargs.pop("flavour_name", None)
        if kwargs:
            raise TypeError("unexpected keyword arguments %s" % sorted(kwargs))
        _event("ctor", label=label, cls=type(self).__name__, loop_running=_loop_running())

    def __repr__(self):
        # like most classes: the representation shows what the constructor has set up
        return "<%s %s every %s s>" % (type(self).__name__, self.label, self.period)

    def _fail(self):
        _event("failing", label=self.label, how=self.fail_how)
        if self.fail_how == "return":
            return "orphaned value from %s" % self.label
        if self.fail_how.startswith("return_"):
            # a value that is not None, though its truth value is False: still nobody is there to receive it
            return {"false": False, "zero": 0, "empty": [], "emptystr": ""}[self.fail_how[7:]]
        if self.fail_how == "systemexit":
            sys.exit("service %s gives up" % self.label)
        if self.fail_how == "base":
            raise ServiceAbort("service %s aborted on purpose" % self.label)
        raise RuntimeError("service %s failed on purpose" % self.label)


def _trio_service(base):
    class Svc(_SvcMixin, base):
        async def run(self):
            _event("run", label=self.label, flavour="trio")
            n = 0
            try:
                while True:
                    if n == 3:
                        import gc

                        gc.collect()
                    if self.fail_after is not None and n >= self.fail_after:
                        return self._fail()
                    _event("beat", label=self.label, n=n)
                    n += 1
                    await trio.sleep(self.period)
            except trio.Cancelled:
                _event("cancelled", label=self.label)
                raise

    return Svc


@service(flavour=trio)
class VSvcPool(_trio_service(Pool)):
    supply = demand = 0
    utilisation = allocation = 1.0

    def __init__(self, label="pool", **kwargs):
        self._setup(label, kwargs)


@service(flavour=trio)
class VSvcEmpty(_trio_service(Pool)):
    """A composite-like service pool without children: it evaluates to False (len() == 0)."""

    supply = demand = 0
    utilisation = allocation = 1.0

    def __init__(self, label="empty", **kwargs):
        self.children = []
        self._setup(label, kwargs)

    def __len__(self):
        return len(self.children)


@service(flavour=trio)
class VSvcCtrl(_trio_service(Controller)):
    def __init__(self, target, label="ctrl", **kwargs):
        super().__init__(target)
        self._setup(label, kwargs)


@service(flavour=trio)
class VSvcTrioDeco(_trio_service(PoolDecorator)):
    def __init__(self, target, label="tdeco", **kwargs):
        super().__init__(target)
        self._setup(label, kwargs)


@service(flavour=asyncio)
class VSvcDeco(_SvcMixin, PoolDecorator):
    def __init__(self, target, label="deco", **kwargs):
        super().__init__(target)
        self._setup(label, kwargs)

    async def run(self):
        _event("run", label=self.label, flavour="asyncio")
        n = 0
        try:
            while True:
                if self.fail_after is not None and n >= self.fail_after:
                    return self._fail()
                _event("beat", label=self.label, n=n)
                n += 1
                await asyncio.sleep(self.period)
        except asyncio.CancelledError:
            _event("cancelled", label=self.label)
            raise


@service(flavour=asyncio)
class VSvcNew(_SvcMixin, PoolDecorator):
    """A service that prepares part of its state in __new__ from the constructor arguments (as interned or frozen objects do)."""

    def __new__(cls, target, label="new", **kwargs):
        self = super().__new__(cls)
        self.prepared = "prepared for %s" % label
        return self

    def __init__(self, target, label="new", **kwargs):
        super().__init__(target)
        self._setup(label, kwargs)

    async def run(self):
        _event("run", label=self.label, flavour="asyncio")
        n = 0
        try:
            while True:
                if self.prepared != "prepared for %s" % self.label:
                    raise RuntimeError("service %s runs on an object its __new__ did not prepare" % self.label)
                if self.fail_after is not None and n >= self.fail_after:
                    return self._fail()
                _event("beat", label=self.label, n=n)
                n += 1
                await asyncio.sleep(self.period)
        except asyncio.CancelledError:
            _event("cancelled", label=self.label)
            raise


@service(flavour=asyncio)
class VSvcStubborn(_SvcMixin, PoolDecorator):
    """An asyncio service with a retry loop: it takes the first interruption of a step for a failed step and carries on."""

    def __init__(self, target, label="stubborn", **kwargs):
        super().__init__(target)
        self._setup(label, kwargs)

    async def run(self):
        _event("run", label=self.label, flavour="asyncio")
        n, absorbed = 0, False
        while True:
            try:
                if self.fail_after is not None and n >= self.fail_after:
                    return self._fail()
                _event("beat", label=self.label, n=n)
                n += 1
                await asyncio.sleep(self.period)
            except asyncio.CancelledError:
                if absorbed:
                    _event("cancelled", label=self.label)
                    raise
                absorbed = True


@service(flavour=asyncio)
class VSvcAgain(VSvcDeco):
    """A subclass of a service class that is declared a service once more (same flavour)."""


@service(flavour=asyncio)
class VSvcWaiter(_SvcMixin, PoolDecorator):
    """An asyncio service that runs "until cancelled" by waiting on a future only its own frame references."""

    def __init__(self, target, label="waiter", **kwargs):
        super().__init__(target)
        self._setup(label, kwargs)

    async def run(self):
        _event("run", label=self.label, flavour="asyncio")
        for n in range(5):
            _event("beat", label=self.label, n=n)
            await asyncio.sleep(0.01)
        try:
            await asyncio.get_running_loop().create_future()
        except asyncio.CancelledError:
            _event("cancelled", label=self.label)
            raise
        finally:
            _event("waiter-ended", label=self.label)


@service(flavour=threading)
class VSvcThread(_SvcMixin, PoolDecorator):
    def __init__(self, target, label="thread", **kwargs):
        super().__init__(target)
        self._setup(label, kwargs)

    def run(self):
        _event("run", label=self.label, flavour="threading")
        n = 0
        while True:
            if self.fail_after is not None and n >= self.fail_after:
                return self._fail()
            _event("beat", label=self.label, n=n)
            n += 1
            time.sleep(self.period)


@service(flavour=threading)
class VSvcScout(object):
    """A helper service a configuration uses while it is being built (it probes something and is done): run() ends at once."""

    def __init__(self, label="scout"):
        self.label = label
        self.done = threading.Event()

    def run(self):
        _event("scout", label=self.label)
        self.done.set()


# every recording class is also reachable through a namespace class and an alternative constructor
for _cls in (VCtrl, VDeco, VDeco2, VDecoKw, VDecoFalsy, VPool, VPoolEmpty, VSvcPool, VSvcEmpty, VSvcCtrl, VSvcTrioDeco, VSvcDeco, VSvcAgain, VSvcStubborn, VSvcNew, VSvcWaiter, VSvcThread):
    setattr(Site, _cls.__name__, _cls)
    _cls.build = classmethod(_build)
