"""Canary module imported up front by the C18 check: PyYAML's FullLoader only resolves names
in modules that are already imported, so these are the targets a permissive loader reaches."""
import os

FIRED = []


def _note(what):
    FIRED.append(what)
    path = os.environ.get("VERIF_CANARY_FILE")
    if path:
        with open(path, "a") as f:
            f.write(what + "\n")


def fire(*args, **kwargs):
    _note("called vcanary.fire")
    return "fired"


class Boom:
    def __init__(self, *args, **kwargs):
        _note("instantiated vcanary.Boom via __init__")

    def __new__(cls, *args, **kwargs):
        _note("instantiated vcanary.Boom via __new__")
        return super().__new__(cls)

    def __setstate__(self, state):
        _note("vcanary.Boom.__setstate__")


SENTINEL = object()
