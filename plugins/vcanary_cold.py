"""Canary module that the checks never import: being imported at all is a violation."""
import os

_path = os.environ.get("VERIF_CANARY_FILE")
if _path:
    with open(_path, "a") as _f:
        _f.write("imported vcanary_cold\n")
IMPORTED = True


def fire(*args, **kwargs):
    if _path:
        with open(_path, "a") as f:
            f.write("called vcanary_cold.fire\n")
    return "fired"


def handler(**kwargs):
    """A logging handler factory (`(): vcanary_cold.handler` in a logging section)."""
    import logging

    if _path:
        with open(_path, "a") as f:
            f.write("called vcanary_cold.handler\n")
    return logging.NullHandler()
