"""Section plugins for the C14 check: `digest_<i>` attributes are resolved dynamically from
the case currently installed by the check (PEP 562 module __getattr__), so the real
entrypoints -> SectionPlugin.load -> toposort path runs for every generated plugin set."""
from cobald.daemon.plugins import constraints

CURRENT = {"plugins": {}, "log": []}


def install(plugins):
    """plugins: {attr name: dict(section=, required=, before=, after=, result=, plain=)}"""
    CURRENT["plugins"] = plugins
    CURRENT["log"] = []
    CURRENT["made"] = {}
    CURRENT["raises"] = None
    CURRENT["raised"] = None


def __getattr__(name):
    try:
        spec = CURRENT["plugins"][name]
    except KeyError:
        raise AttributeError(name) from None
    if name in CURRENT["made"]:
        return CURRENT["made"][name]

    def digest(content):
        # one callable may be installed under two section names: the content tells which of them is being digested
        section = content["which"] if isinstance(content, dict) and "which" in content else spec["section"]
        CURRENT["log"].append((section, content))
        boom = CURRENT.get("raises")
        if boom and boom["section"] == section:
            CURRENT["raised"] = {"KeyError": KeyError, "LookupError": LookupError, "ValueError": ValueError, "TypeError": TypeError}[boom["kind"]]("option")
            raise CURRENT["raised"]
        return spec["result"]

    digest.__name__ = digest.__qualname__ = spec.get("funcname") or name  # a function may be called like anything - e.g. like another section
    if not spec.get("plain"):
        # constraints are declared as Iterable[str]: lists, tuples, sets and one-shot iterables alike
        shape = {
            "list": list, "tuple": tuple, "set": set, "iter": iter, "generator": lambda names: (n for n in names),
            "map": lambda names: map(str, names), "dictkeys": lambda names: dict.fromkeys(names).keys(),
        }[spec.get("iterable", "list")]
        digest = constraints(
            before=shape(spec["before"]), after=shape(spec["after"]), required=spec["required"]
        )(digest)
    CURRENT["made"][name] = digest
    return digest
