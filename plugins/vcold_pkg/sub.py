def fire(*args, **kwargs):
    return "fired"


class Boom:
    pass
