"""Canary *package* that the checks never import: a rejected document naming vcold_pkg.sub.* must
not even get this __init__ executed (importlib.util.find_spec of a dotted name imports the parent)."""
import os

_path = os.environ.get("VERIF_CANARY_FILE")
if _path:
    with open(_path, "a") as _f:
        _f.write("imported vcold_pkg\n")
IMPORTED = True
