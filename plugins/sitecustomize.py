"""Imported automatically at interpreter start-up when /verif/plugins is on PYTHONPATH.

Only acts when VERIF_DAEMON_INJECT is set (the C13 check sets it for some daemon children):
installs the same line-level delay injection the E1 engine uses, so that schedules of the real
`python -m cobald.daemon` process get perturbed too.  Never touches the repository's code."""
import os

if os.environ.get("VERIF_DAEMON_INJECT"):
    try:
        import json

        from vlib.rt import inject

        _injector = inject.Injector(json.loads(os.environ["VERIF_DAEMON_INJECT"]))
        _injector.start()
    except Exception as _err:  # never break the daemon because of the harness
        import sys

        print("verif sitecustomize: injection not started: %r" % (_err,), file=sys.stderr)
