"""
C02 demo 9: a trio payload whose shielded cleanup ends with a hand-over.

A trio payload "worker" sleeps forever.  When it is cancelled it performs a shielded
asynchronous cleanup (flushing for 0.3 s) and, as the last step of that cleanup,
hands its state over to a successor payload of another flavour via ``adopt`` before
it reports the cleanup as done.  The runtime is terminated by a *failing* asyncio
payload, a failing thread payload, and - for comparison - by shutdown().

When the blocking ``accept()`` call has ended
 * the worker must have been cancelled through trio.Cancelled,
 * its cleanup must have run to its end (the hand-over must not blow up in the
   middle of the ``finally`` block), and
 * whatever successor was started must have been cancelled and cleaned up, too.
"""
import asyncio
import logging
import os
import sys
import threading
import time

import trio

from cobald.daemon.runners.service import ServiceRunner

logging.disable(logging.CRITICAL)

CLEANUP = 0.3


def one_round(trigger, successor_flavour):
    events = []
    lock = threading.Lock()

    def log(name, what):
        with lock:
            events.append((time.monotonic(), name, what))

    runner = ServiceRunner(accept_delay=0.05)
    started = threading.Event()
    fail = threading.Event()

    async def asyncio_successor():
        log("successor", "start")
        try:
            await asyncio.sleep(3600)
        except asyncio.CancelledError:
            log("successor", "cancelled")
            raise
        finally:
            log("successor", "cleanup-done")

    def thread_successor():
        log("successor", "thread-ran")

    async def worker():
        log("worker", "start")
        started.set()
        try:
            await trio.sleep_forever()
        except trio.Cancelled:
            log("worker", "cancelled")
            raise
        finally:
            with trio.CancelScope(shield=True):
                await trio.sleep(CLEANUP)
                log("worker", "flushed")
                try:
                    if successor_flavour is asyncio:
                        runner.adopt(asyncio_successor, flavour=asyncio)
                    else:
                        runner.adopt(thread_successor, flavour=threading)
                except BaseException as err:  # noqa: B036
                    log("worker", "cleanup-aborted: %r" % (err,))
                    raise
                log("worker", "cleanup-done")

    async def asyncio_failure():
        while not fail.is_set():
            await asyncio.sleep(0.01)
        raise LookupError("asyncio payload failed")

    def thread_failure():
        fail.wait()
        raise LookupError("thread payload failed")

    outcome = {}

    def blocking_call():
        try:
            runner.accept()
        except BaseException:  # noqa: B036
            pass
        outcome["end"] = time.monotonic()

    runner.adopt(worker, flavour=trio)
    if trigger == "asyncio failure":
        runner.adopt(asyncio_failure, flavour=asyncio)
    elif trigger == "thread failure":
        runner.adopt(thread_failure, flavour=threading)
    main = threading.Thread(target=blocking_call, daemon=True)
    main.start()
    if not started.wait(10) or not runner.running.wait(10):
        return "payloads did not start (demo setup problem)"
    time.sleep(0.1)
    if trigger == "shutdown()":
        runner.shutdown()
    else:
        fail.set()
    main.join(15)
    if main.is_alive():
        return "accept() did not end"
    end_time = outcome["end"]
    time.sleep(0.2)
    with lock:
        snapshot = list(events)
    problems = []
    mine = [(t, what) for t, who, what in snapshot if who == "worker"]
    before = [what for t, what in mine if t <= end_time]
    if "cancelled" not in before:
        problems.append("worker was not cancelled via trio.Cancelled")
    aborted = [what for what in before if what.startswith("cleanup-aborted")]
    if "cleanup-done" not in before:
        problems.append(
            "worker did not finish its shielded cleanup before accept() ended%s"
            % (" (%s)" % aborted[0] if aborted else "")
        )
    if any(t > end_time for t, _ in mine):
        problems.append("worker was active after accept() ended")
    theirs = [(t, what) for t, who, what in snapshot if who == "successor"]
    if any(what == "start" for _, what in theirs):
        done = [what for t, what in theirs if t <= end_time]
        if "cancelled" not in done or "cleanup-done" not in done:
            problems.append("the adopted successor was not cancelled and cleaned up")
    if any(t > end_time for t, what in theirs if what != "thread-ran"):
        problems.append("the adopted successor was active after accept() ended")
    return "; ".join(problems) or None


def main():
    for trigger in ("shutdown()", "asyncio failure", "thread failure"):
        for successor_flavour in (asyncio, threading):
            problem = one_round(trigger, successor_flavour)
            if problem:
                print(
                    "C02 VIOLATED (trigger: %s, hand-over to %s): %s"
                    % (trigger, successor_flavour.__name__, problem)
                )
                return 1
    print("ok: trio payloads finished their shielded cleanup including the hand-over")
    return 0


if __name__ == "__main__":
    watchdog = threading.Timer(
        50, lambda: (print("C02 VIOLATED: demo timed out"), os._exit(2))
    )
    watchdog.daemon = True
    watchdog.start()
    code = main()
    sys.stdout.flush()
    os._exit(code)
