"""SIGINT while a trio payload has a long shielded cleanup that ends with a hand-over.

The cleanup must run to its end before run() returns; the late hand-over may be
postponed/discarded but must not blow up the cleanup.
"""
import asyncio
import os
import signal
import sys
import threading
import time

import trio

from cobald.daemon.runners.meta_runner import MetaRunner

runner = MetaRunner()
started = threading.Event()
log = []


async def successor():
    await asyncio.sleep(3600)


async def trio_payload():
    try:
        started.set()
        await trio.sleep_forever()
    finally:
        log.append("cancelled")
        with trio.CancelScope(shield=True):
            await trio.sleep(0.6)  # flush state ...
            runner.register_payload(successor, flavour=asyncio)  # ... and hand over
            await trio.sleep(0.1)
            log.append("cleanup-done")


def interrupt():
    if not started.wait(20):
        os._exit(3)
    time.sleep(0.2)
    os.kill(os.getpid(), signal.SIGINT)


def watchdog():
    time.sleep(40)
    print("FAIL: run() did not return after SIGINT")
    os._exit(2)


threading.Thread(target=watchdog, daemon=True).start()
threading.Thread(target=interrupt, daemon=True).start()
runner.register_payload(trio_payload, flavour=trio)
try:
    runner.run()
except BaseException as err:  # noqa: B036
    print("run() raised %r" % (err,))
print("log:", log)
if log != ["cancelled", "cleanup-done"]:
    print("FAIL: trio payload was cancelled but its shielded cleanup did not finish")
    sys.exit(1)
print("OK")
