"""
C03 demo 3: adoption from a trio payload's cleanup while the runtime shuts down
because *another* payload failed.

An asyncio payload raises, so the runtime closes all runners.  A trio payload is
cancelled by that and, inside its shielded cleanup, adopts one payload per flavour.
While the runtime is still finishing its payloads' cleanup every ``adopt`` must
return None without raising (the payload may be started or discarded).
"""
import asyncio
import os
import sys
import threading
import time

import trio

from cobald.daemon.runners.service import ServiceRunner

runner = ServiceRunner(accept_delay=0.05)
guardian_running = threading.Event()
cleanup_done = threading.Event()
adopt_results = []  # (flavour name, return value or exception)
accept_outcome = []


def sub_noop(tag):
    pass


async def co_noop(tag):
    pass


async def guardian():
    guardian_running.set()
    try:
        await trio.sleep_forever()
    finally:
        with trio.CancelScope(shield=True):
            # the cleanup takes a while: all runners have been asked to close by now
            await trio.sleep(1.0)
            for flavour, payload in (
                (threading, sub_noop),
                (asyncio, co_noop),
                (trio, co_noop),
            ):
                try:
                    result = runner.adopt(payload, "late", flavour=flavour)
                except BaseException as err:  # noqa: B036
                    adopt_results.append((flavour.__name__, err))
                else:
                    adopt_results.append((flavour.__name__, result))
            cleanup_done.set()


async def failing():
    await asyncio.sleep(0.05)
    raise LookupError("expected failure of an asyncio payload")


def run_accept():
    try:
        runner.accept()
    except BaseException as err:  # noqa: B036
        accept_outcome.append(err)
    else:
        accept_outcome.append(None)


def fail(message):
    print("FAIL:", message)
    sys.stdout.flush()
    os._exit(1)


def main():
    thread = threading.Thread(target=run_accept, daemon=True)
    thread.start()
    if not runner.running.wait(10):
        fail("runtime did not start")
    assert runner.adopt(guardian, flavour=trio) is None
    if not guardian_running.wait(10):
        fail("the trio payload was never started")
    assert runner.adopt(failing, flavour=asyncio) is None
    if not cleanup_done.wait(20):
        fail("the trio payload's cleanup did not run/finish")
    thread.join(20)
    if thread.is_alive():
        fail("runtime did not terminate after the failure")
    if not accept_outcome or not isinstance(accept_outcome[0], RuntimeError):
        fail("accept did not report the payload failure: %r" % (accept_outcome,))
    bad = [(name, res) for name, res in adopt_results if res is not None]
    if len(adopt_results) != 3 or bad:
        fail(
            "adopt during the payloads' cleanup did not simply return None: %r"
            % (adopt_results,)
        )
    print("OK: adopt returned None for all flavours during cleanup:", adopt_results)
    sys.stdout.flush()
    os._exit(0)


if __name__ == "__main__":
    main()
