"""Parent side of E1: run one scenario in its own interpreter and read its event log."""
import json
import os
import subprocess
import tempfile

from .. import core


class Run:
    """What one scenario process left behind."""

    def __init__(self, spec, events, stacks, completed, exit_code, timed_out):
        self.spec = spec
        self.events = events
        self.stacks = stacks  # faulthandler dump if the watchdog fired (or a fatal error)
        self.completed = completed  # the scenario-end event was written
        self.exit_code = exit_code
        self.timed_out = timed_out

    def of(self, kind=None, gen=None, **match):
        out = []
        for e in self.events:
            if kind is not None and e["kind"] != kind:
                continue
            if gen is not None and e.get("gen") != gen:
                continue
            if all(e.get(k) == v for k, v in match.items()):
                out.append(e)
        return out

    def first(self, kind=None, gen=None, **match):
        found = self.of(kind, gen, **match)
        return found[0] if found else None

    def interleaving_signature(self, limit=40):
        """(thread role, event kind) of the first events: distinct observed interleavings."""
        roles = {}
        sig = []
        for e in self.events[:limit]:
            role = roles.setdefault(e["th"], len(roles))
            sig.append((role, e["kind"], e.get("op") or e.get("pid") or ""))
        return core.digest(sig)

    def witness(self):
        return {"events": self.events[-150:], "stacks": self.stacks[-6000:] if self.stacks else "",
                "completed": self.completed, "exit_code": self.exit_code}


def run_scenario(spec):
    watchdog = spec.get("watchdog", 20)
    with tempfile.TemporaryDirectory(prefix="cobald-verif-rt-") as tmp:
        spec_file = os.path.join(tmp, "spec.json")
        events_file = os.path.join(tmp, "events.jsonl")
        with open(spec_file, "w") as f:
            json.dump(spec, f)
        timed_out = False
        try:
            proc = subprocess.run(
                [core.PYTHON, "-X", "dev" if spec.get("devmode") else "nodev", "-m", "vlib.rt.scenario", spec_file, events_file]
                if False else [core.PYTHON, "-m", "vlib.rt.scenario", spec_file, events_file],
                cwd=core.VERIF, timeout=watchdog + 15, stdout=subprocess.DEVNULL, stderr=subprocess.PIPE,
            )
            code = proc.returncode
            err = proc.stderr.decode(errors="replace")[-3000:]
        except subprocess.TimeoutExpired:
            timed_out, code, err = True, None, ""
        events = []
        if os.path.exists(events_file):
            with open(events_file) as f:
                for line in f:
                    try:
                        events.append(json.loads(line))
                    except ValueError:
                        pass
        stacks = ""
        if os.path.exists(events_file + ".stacks"):
            with open(events_file + ".stacks") as f:
                stacks = f.read()
        if not events and err:
            stacks += "\nSTDERR:\n" + err
        completed = any(e["kind"] == "scenario-end" for e in events)
        return Run(spec, events, stacks, completed, code, timed_out)
