"""C02, last clause: thread payloads that are still blocked never prevent termination - of the run call *and of the process*.

The runtime runs in the main thread, as in the daemon.  Blocked thread payloads are adopted from every context (queued
before the start, from an asyncio payload, from a trio payload, from a thread payload, from an outside thread).  The run
call is ended (shutdown / failing payload / KeyboardInterrupt raised by a payload); then the main thread simply returns.
The parent process measures whether the interpreter exits: a payload thread that the interpreter waits for keeps it alive.

usage: python -m vlib.rt.exit_probe <shutdown|failure|interrupt> <mode>   ->  JSON lines on stdout, then the process ends
"""
import asyncio
import json
import sys
import threading
import time


def say(**facts):
    print(json.dumps(facts))
    sys.stdout.flush()


def main():
    ending, mode = sys.argv[1], sys.argv[2]
    import trio
    from cobald.daemon.runners.service import ServiceRunner
    from cobald.daemon.runners.meta_runner import MetaRunner

    runner = ServiceRunner(accept_delay=0.02) if mode == "service" else MetaRunner()
    started = []
    forever = threading.Event()

    def adopt(payload, flavour):
        if mode == "service":
            runner.adopt(payload, flavour=flavour)
        else:
            runner.register_payload(payload, flavour=flavour)

    def blocked(name):
        def payload():
            started.append((name, threading.current_thread().daemon))
            forever.wait()

        payload.__name__ = "blocked_" + name
        return payload

    async def from_asyncio():
        adopt(blocked("by_asyncio"), threading)
        await asyncio.sleep(3600)

    async def from_trio():
        adopt(blocked("by_trio"), threading)
        await trio.sleep_forever()

    def from_thread():
        adopt(blocked("by_thread"), threading)

    adopt(blocked("queued"), threading)
    adopt(from_asyncio, asyncio)
    adopt(from_trio, trio)
    adopt(from_thread, threading)

    def control():
        if not runner.running.wait(10):
            say(inconclusive="runtime never reported running")
            return
        adopt(blocked("by_outside"), threading)
        deadline = time.monotonic() + 10
        while len(started) < 5 and time.monotonic() < deadline:
            time.sleep(0.01)
        if ending == "shutdown":
            runner.shutdown() if mode == "service" else runner.stop()
        elif ending == "failure":
            def fail():
                raise LookupError("failing on purpose")

            adopt(fail, threading)
        else:
            async def interrupt():
                raise KeyboardInterrupt

            adopt(interrupt, asyncio)

    threading.Thread(target=control, daemon=True).start()
    try:
        runner.accept() if mode == "service" else runner.run()
        outcome = "returned"
    except BaseException as err:  # noqa: B036
        outcome = "raised %s" % type(err).__name__
    say(run_call=outcome, blocked_payloads_started=sorted(n for n, _ in started),
        not_daemonic=sorted(n for n, d in started if not d), threads_alive=threading.active_count())
    # the main thread ends here: nothing but the interpreter's own shutdown follows


if __name__ == "__main__":
    main()
