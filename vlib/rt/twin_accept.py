"""A forced schedule for C12: several service runners call accept() at the very same instant.

Every statement boundary inside cobald.daemon.runners.guard is stretched (a pause of 20-40 ms at each line event, set up
from outside with sys.monitoring - no cobald code changes), so all callers are inside the guard's test-and-take section
together.  Exactly one of them may be admitted; each of the others must be refused with RuntimeError while the winner is
still accepting - not queue up behind it and be admitted once it has ended.

usage: python -m vlib.rt.twin_accept <callers> <seed>   ->  one JSON line
"""
import json
import os
import random
import sys
import threading
import time


def main():
    n, seed = int(sys.argv[1]), int(sys.argv[2])
    rnd = random.Random(seed)
    from cobald.daemon.runners import guard
    from cobald.daemon.runners.service import ServiceRunner
    from vlib.rt.inject import code_objects

    tool, lines = 3, [0]
    lock = threading.Lock()
    sys.monitoring.use_tool_id(tool, "verif-twin-accept")

    def on_line(code, line):
        with lock:
            lines[0] += 1
            nap = rnd.uniform(0.02, 0.04) if lines[0] < 400 else 0
        if nap:
            time.sleep(nap)

    sys.monitoring.register_callback(tool, sys.monitoring.events.LINE, on_line)
    for code in code_objects(guard):
        sys.monitoring.set_local_events(tool, code, sys.monitoring.events.LINE)

    runners = [ServiceRunner(accept_delay=0.02) for _ in range(n)]
    barrier = threading.Barrier(n)
    outcome = [None] * n
    ended_at = [None] * n

    def call(i):
        barrier.wait()
        try:
            runners[i].accept()
            outcome[i] = "returned"
        except RuntimeError as err:
            outcome[i] = "refused"  # whatever its wording: "a concurrent accept raises RuntimeError"
        except BaseException as err:  # noqa: B036
            outcome[i] = "raised %s(%s)" % (type(err).__name__, err)
        ended_at[i] = time.monotonic()

    threads = [threading.Thread(target=call, args=(i,), daemon=True) for i in range(n)]
    for t in threads:
        t.start()
    out = {"callers": n, "seed": seed}
    deadline = time.monotonic() + 15
    winner = None
    while time.monotonic() < deadline and winner is None:
        up = [i for i in range(n) if runners[i].running.is_set()]
        if up:
            winner = up[0]
        time.sleep(0.01)
    if winner is None:
        out["inconclusive"] = "no caller was admitted within 15 s (outcomes %r)" % (outcome,)
        print(json.dumps(out))
        os._exit(0)
    # while the winner accepts: everybody else must have been refused
    time.sleep(1.0)
    out["admitted_together"] = [i for i in range(n) if runners[i].running.is_set()]
    out["while_winner_accepting"] = list(outcome)
    out["guard_line_events"] = lines[0]
    t_stop = time.monotonic()
    runners[winner].shutdown()
    threads[winner].join(10)
    # afterwards: nobody who called at that instant is admitted now
    time.sleep(1.0)
    late = [i for i in range(n) if i != winner and (runners[i].running.is_set() or (ended_at[i] is not None and ended_at[i] > t_stop and outcome[i] == "returned"))]
    out["admitted_after_the_winner_ended"] = late
    out["final"] = list(outcome)
    out["winner"] = winner
    print(json.dumps(out))
    sys.stdout.flush()
    os._exit(0)


if __name__ == "__main__":
    main()
