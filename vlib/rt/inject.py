"""Schedule perturbation + anchor reach counters via sys.monitoring LINE events.

LINE events are enabled (local events, own tool id) on every code object of
cobald.daemon.runners.*; the callback, driven by the scenario's injection PRNG, does
time.sleep(0) (GIL hand-off) or sleeps 0.3-3 ms with small probability.  This only delays a
thread at a statement boundary - which the OS scheduler may do anyway - so no interleaving
is manufactured that the program cannot have; a coroutine is never made to yield where it
could not.  The same callback counts hits per (function, line).
"""
import importlib
import random
import sys
import threading
import time
import types

TOOL = 4
MODULES = [
    "cobald.daemon.runners.base_runner", "cobald.daemon.runners.meta_runner", "cobald.daemon.runners.asyncio_runner",
    "cobald.daemon.runners.trio_runner", "cobald.daemon.runners.thread_runner", "cobald.daemon.runners.service",
    "cobald.daemon.runners.guard",
    "_weakrefset",  # the service registry is a WeakSet: widen the windows inside its (pure Python) iteration as well
    "asyncio.runners",  # asyncio.run's finalisation: the window between the loop's last turn and loop.close()
]


def code_objects(module):
    seen, out = set(), []

    def walk(code):
        if id(code) in seen:
            return
        seen.add(id(code))
        out.append(code)
        for const in code.co_consts:
            if isinstance(const, types.CodeType):
                walk(const)

    def visit(obj, depth=0):
        if isinstance(obj, (types.FunctionType,)):
            if obj.__module__ == module.__name__:
                walk(obj.__code__)
        elif isinstance(obj, (staticmethod, classmethod)):
            visit(obj.__func__, depth)
        elif isinstance(obj, property):
            for f in (obj.fget, obj.fset, obj.fdel):
                if f is not None:
                    visit(f, depth)
        elif isinstance(obj, type) and obj.__module__ == module.__name__ and depth < 3:
            for value in vars(obj).values():
                visit(value, depth + 1)
        if hasattr(obj, "__wrapped__") and depth < 3:
            visit(obj.__wrapped__, depth + 1)

    for value in vars(module).values():
        visit(value)
    return out


class Injector:
    def __init__(self, conf):
        self.seed = conf.get("seed", 0)
        self.p_yield = conf.get("p_yield", 0.2)
        self.p_sleep = conf.get("p_sleep", 0.02)
        self.max_sleep = conf.get("max_sleep", 0.003)
        # "hot" functions: {qualified name: seconds} - a longer delay (with probability 1/2) at each of their lines
        self.hot = conf.get("hot", {})
        self.lock = threading.Lock()
        self.rnd = random.Random(self.seed)
        self.hits = {}
        self.codes = []
        self.active = False

    def _line(self, code, line):
        with self.lock:
            key = "%s:%d" % (code.co_qualname, line)
            self.hits[key] = self.hits.get(key, 0) + 1
            r = self.rnd.random()
            nap = self.rnd.uniform(0.0003, self.max_sleep)
            hot = self.hot.get(code.co_qualname) if self.hot else None
            if hot and self.rnd.random() < 0.5:
                nap, r = self.rnd.uniform(hot / 4, hot), -1.0
        if r < self.p_sleep:
            time.sleep(nap)
        elif r < self.p_sleep + self.p_yield:
            time.sleep(0)

    def start(self):
        mon = sys.monitoring
        try:
            mon.use_tool_id(TOOL, "cobald-verif-inject")
        except ValueError:
            return
        mon.register_callback(TOOL, mon.events.LINE, self._line)
        for name in MODULES:
            module = importlib.import_module(name)
            for code in code_objects(module):
                mon.set_local_events(TOOL, code, mon.events.LINE)
                self.codes.append(code)
        self.active = True

    def stop(self):
        if not self.active:
            return
        mon = sys.monitoring
        for code in self.codes:
            mon.set_local_events(TOOL, code, 0)
        mon.register_callback(TOOL, mon.events.LINE, None)
        mon.free_tool_id(TOOL)
        self.active = False

    def stats(self):
        with self.lock:
            return dict(self.hits)
