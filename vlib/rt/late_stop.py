"""A forced schedule for C12: a stop() request that reaches the event loop in the instant before the loop is closed.

Thread B calls shutdown() and is preempted inside BaseRunner.stop(), after it has seen that the runner is still
running and before it hands its close request to the event loop (the k-th such request it makes).  Meanwhile the
runtime ends - by another shutdown() or by a failing payload.  B resumes when the loop has run for the last time and
is about to be closed.  Both preemption points are ordinary statement boundaries; they are forced from the outside
by wrapping asyncio.run_coroutine_threadsafe and the event loop's close() in this process - no cobald code changes.

usage: python -m vlib.rt.late_stop <k> <shutdown|failure>   ->  one JSON line
"""
import asyncio
import json
import sys
import threading
import time


def main():
    which, ending = int(sys.argv[1]), sys.argv[2]
    from asyncio import unix_events
    from cobald.daemon.runners.service import ServiceRunner

    about_to_close, scheduled = threading.Event(), threading.Event()
    state = {"thread": None, "requests": 0, "parked": threading.Event(), "armed": False}
    real_rcts = asyncio.run_coroutine_threadsafe

    def delayed_rcts(coro, loop):
        if threading.current_thread() is state["thread"]:
            state["requests"] += 1
            if state["requests"] == which + 1:
                state["parked"].set()
                about_to_close.wait(15)  # preempted until the loop has run for the last time
                try:
                    return real_rcts(coro, loop)
                finally:
                    scheduled.set()
        return real_rcts(coro, loop)

    asyncio.run_coroutine_threadsafe = delayed_rcts
    real_close = unix_events._UnixSelectorEventLoop.close

    def close(self):
        if state["armed"] and state["parked"].is_set() and not about_to_close.is_set():
            about_to_close.set()
            scheduled.wait(15)
        return real_close(self)

    unix_events._UnixSelectorEventLoop.close = close

    out = {"which": which, "ending": ending}
    runner = ServiceRunner(accept_delay=0.01)
    accept_result = {}

    def accept():
        try:
            runner.accept()
            accept_result["outcome"] = "returned"
        except BaseException as err:  # noqa: B036
            accept_result["outcome"] = "raised %s" % type(err).__name__

    main_thread = threading.Thread(target=accept, daemon=True)
    main_thread.start()
    if not runner.running.wait(10):
        out["inconclusive"] = "runtime never reported running"
        print(json.dumps(out))
        return
    done = threading.Event()
    late_result = {}

    def late():
        try:
            runner.shutdown()
            late_result["outcome"] = "returned"
        except BaseException as err:  # noqa: B036
            late_result["outcome"] = "raised %s(%s)" % (type(err).__name__, err)
        done.set()

    thread = threading.Thread(target=late, daemon=True)
    state["thread"] = thread
    state["armed"] = True
    thread.start()
    if not state["parked"].wait(10):
        # the late thread never made its k-th request: the runtime ended through its earlier ones
        out["inconclusive"] = "the late caller made only %d close request(s)" % state["requests"]
        done.wait(10)
        out["late_shutdown"] = late_result.get("outcome", "never returned")
        print(json.dumps(out))
        return
    if ending == "shutdown":
        runner.shutdown()
    else:
        def fail():
            raise LookupError("failing on purpose")

        runner.adopt(fail, flavour=threading)
    main_thread.join(15)
    out["accept"] = accept_result.get("outcome", "still running")
    out["window_reached"] = about_to_close.is_set()
    t0 = time.monotonic()
    finished = done.wait(6)
    out["late_shutdown"] = late_result.get("outcome") if finished else "never returned"
    out["waited"] = round(time.monotonic() - t0, 2)
    print(json.dumps(out))
    sys.stdout.flush()
    import os

    os._exit(0)


if __name__ == "__main__":
    main()
