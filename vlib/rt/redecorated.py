"""A forced schedule for C03: the accept loop polls between the two registrations of a re-decorated service class.

service() registers a ServiceUnit in __new__.  For a subclass of a service class that is declared a service again,
the base's __new__ registers a unit of its own first; it only dies when the outer decorator overwrites
instance.__service_unit__.  The thread constructing the instance is preempted in between (a pause after the first
registration, forced from outside by wrapping ServiceUnit.__init__ in this process - no cobald code changes).

usage: python -m vlib.rt.redecorated <same|moved>  ->  one JSON line
"""
import asyncio
import json
import os
import sys
import threading
import time

import sniffio
import trio


def main():
    variant = sys.argv[1]
    from cobald.daemon.runners.service import ServiceRunner, ServiceUnit, service

    started = []

    @service(flavour=trio)
    class Base:
        async def run(self):
            started.append([type(self).__name__, sniffio.current_async_library()])
            await trio.sleep(30)

    if variant == "same":
        @service(flavour=trio)
        class Derived(Base):
            pass

        want = [["Derived", "trio"]]
    else:
        async def asyncio_run(self):
            started.append([type(self).__name__, sniffio.current_async_library()])
            await asyncio.sleep(30)

        @service(flavour=asyncio)
        class Derived(Base):
            run = asyncio_run

        want = [["Derived", "asyncio"]]

    real_init = ServiceUnit.__init__
    registrations = {}

    def slow_init(self, svc, flavour):
        real_init(self, svc, flavour)
        n = registrations[id(svc)] = registrations.get(id(svc), 0) + 1
        if n == 1 and type(svc) is not Base:
            time.sleep(0.3)  # preempted right after the base decorator's registration

    ServiceUnit.__init__ = slow_init
    runner = ServiceRunner(accept_delay=0.01)
    outcome = {}

    def accept():
        try:
            runner.accept()
            outcome["accept"] = "returned"
        except BaseException as err:  # noqa: B036
            outcome["accept"] = "raised %s" % type(err).__name__

    thread = threading.Thread(target=accept, daemon=True)
    thread.start()
    out = {"variant": variant, "want": want}
    if not runner.running.wait(10):
        out["inconclusive"] = "runtime never reported running"
        print(json.dumps(out))
        os._exit(0)
    instance = Derived()
    time.sleep(0.5)
    out["registrations"] = registrations.get(id(instance), 0)
    if thread.is_alive():
        runner.shutdown()
    thread.join(10)
    out["started"] = sorted(started)
    out["accept"] = outcome.get("accept", "still running")
    print(json.dumps(out))
    sys.stdout.flush()
    os._exit(0)


if __name__ == "__main__":
    main()
