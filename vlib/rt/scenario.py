"""E1 scenario process:  python -m vlib.rt.scenario <spec.json> <events.jsonl>

Runs ONE scenario (a list of runner generations) against the real ServiceRunner.  As in the
real daemon the MAIN thread calls accept(), so a real SIGINT reaches it the way it does in
production; a driver thread plays the script (waits for `running`, submits, triggers).

Everything observed goes to a sequence-numbered event log: one lock, one global sequence
number, every event appended to the events file immediately (so a hung scenario still leaves
its history).  Events are written (a) by the payloads themselves (start with received
arguments and execution context, beat/step, cancelled, cleanup-done, fail, end) and (b) by
the harness at the client boundary: call / return / raised around every adopt, execute,
accept, shutdown.  Identity questions (is the raised exception the very object the payload
raised?) are decided here, in-process, and logged as facts.
"""
import asyncio
import faulthandler
import functools
import gc
import json
import logging
import os
import signal
import sys
import threading
import time

import sniffio
import trio

from cobald.daemon.runners.service import ServiceRunner, service
from cobald.daemon.runners.base_runner import OrphanedReturn

FLAVOURS = {"asyncio": asyncio, "trio": trio, "threading": threading}

# fault injection: while a thread has set FAULT.no_threads, the OS "cannot start new threads" for it
FAULT = threading.local()
_real_start_new_thread = threading._start_new_thread


def _faulty_start_new_thread(*args, **kwargs):
    if getattr(FAULT, "no_threads", False):
        raise RuntimeError("can't start new thread")
    return _real_start_new_thread(*args, **kwargs)


threading._start_new_thread = _faulty_start_new_thread


# ------------------------------------------------------------------------------ event log
class Log:
    def __init__(self, path):
        self.lock = threading.Lock()
        self.seq = 0
        self.file = open(path, "a", buffering=1)
        self.events = []
        self.t0 = time.monotonic()
        self.conds = threading.Condition(self.lock)

    def __call__(self, kind, **data):
        with self.conds:
            self.seq += 1
            data.update(seq=self.seq, kind=kind, t=round(time.monotonic() - self.t0, 5), th=threading.get_ident())
            self.events.append(data)
            try:
                self.file.write(json.dumps(data, default=repr) + "\n")
            except ValueError:
                pass
            self.conds.notify_all()
        return data["seq"]

    def wait_for(self, pred, timeout):
        """Block until an event satisfying pred exists (returns it) or timeout (None)."""
        deadline = time.monotonic() + timeout
        with self.conds:
            seen = 0
            while True:
                for e in self.events[seen:]:
                    if pred(e):
                        return e
                seen = len(self.events)
                left = deadline - time.monotonic()
                if left <= 0:
                    return None
                self.conds.wait(left)


LOG = None
WORLD = None
PREVIOUS_RUNNER = [None]
KEPT_INSTANCES = []  # service instances of generations that asked for it stay alive for the rest of the process
REJECTED_RUNNER = [None]  # a runner whose accept was refused and which was then shut down by its owner's cleanup


# ------------------------------------------------------------------------------ failure kinds
def text_of(err):
    """str(err) for the event log - an exception that cannot be printed is still an exception."""
    try:
        return str(err)
    except Exception as trouble:  # noqa: B902
        return "<%s without text: %s>" % (type(err).__name__, type(trouble).__name__)


class CustomWithArgs(Exception):
    def __init__(self, code, detail):
        super().__init__(code, detail)
        self.code, self.detail = code, detail


class CustomBase(BaseException):
    pass


class ReadOnlyError(Exception):
    """An exception whose attributes cannot be set from Python code (a frozen value object)."""

    def __setattr__(self, name, value):
        raise AttributeError("%s is read-only" % type(self).__name__)


class NotedError(Exception):
    """An exception class with an attribute of its own called __notes__ that is not a list."""

    __notes__ = "see the operator's handbook"


class EndOfStream(StopIteration):
    """What a hand-written iterator protocol raises: a subclass of StopIteration."""


class EndOfAsyncStream(StopAsyncIteration):
    pass


class EmptyErrors(Exception):
    """A failure whose truth value is False (an error collection that happens to be empty, a sentinel error)."""

    def __len__(self):
        return 0


class Unprintable(Exception):
    """A failure that cannot be turned into text: reporting it must never replace it."""

    def __str__(self):
        raise TypeError("this failure has no text")


def make_exception(kind):
    table = {
        "LookupError": lambda: LookupError("lookup failed"),
        "ValueError": lambda: ValueError("bad value"),
        "TypeError": lambda: TypeError("payload() got an unexpected argument"),
        "KeyError": lambda: KeyError("k"),
        "CustomWithArgs": lambda: CustomWithArgs(7, "detail"),
        "Unprintable": lambda: Unprintable("hidden"),
        "EmptyErrors": lambda: EmptyErrors("no details"),
        "EndOfStream": lambda: EndOfStream("the payload's own source ran dry"),
        "EndOfAsyncStream": lambda: EndOfAsyncStream("the payload's own source ran dry"),
        # what a payload gets from a stream or channel of its own whose other side went away
        "TrioClosedResourceError": lambda: __import__("trio").ClosedResourceError("the payload's own channel was closed"),
        "TrioBrokenResourceError": lambda: __import__("trio").BrokenResourceError("the payload's own peer went away"),
        "TrioEndOfChannel": lambda: __import__("trio").EndOfChannel("the payload's own channel ended"),
        "ReadOnlyError": lambda: ReadOnlyError("frozen"),
        "NotedError": lambda: NotedError("noted"),
        "StopIteration": lambda: StopIteration("stop"),
        "StopAsyncIteration": lambda: StopAsyncIteration("stop"),
        "TimeoutError": lambda: TimeoutError("timed out"),
        "AsyncioCancelledError": lambda: asyncio.CancelledError("not a real cancellation"),
        "OSError": lambda: OSError(5, "io"),
        "AssertionError": lambda: AssertionError("assert"),
        "RuntimeError": lambda: RuntimeError("runtime"),
        "NotImplementedError": lambda: NotImplementedError("not here"),
        "ExceptionGroup": lambda: ExceptionGroup("group", [ValueError("inner")]),
        "InvalidStateError": lambda: __import__("concurrent.futures").futures.InvalidStateError("state"),
        "FuturesCancelledError": lambda: __import__("concurrent.futures").futures.CancelledError("cf"),
        "SystemExit": lambda: SystemExit(3),
        "SystemExitZero": lambda: SystemExit(0),
        "SystemExitNone": lambda: SystemExit(),
        "GeneratorExit": lambda: GeneratorExit("gen"),
        "CustomBase": lambda: CustomBase("base"),
        "KeyboardInterrupt": lambda: KeyboardInterrupt(),
    }
    return table[kind]()


class Ticket:
    """A return value that happens to be awaitable (like a task handle or a future): it is the value, not a to-do."""

    def __await__(self):
        return "what awaiting the ticket gives"
        yield  # pragma: no cover - makes __await__ a generator function


def make_value(kind):
    table = {
        "zero": lambda: 0, "zerofloat": lambda: 0.0, "false": lambda: False, "emptystr": lambda: "", "emptylist": lambda: [],
        "emptytuple": lambda: (), "emptybytes": lambda: b"", "emptydict": lambda: {}, "str": lambda: "value", "one": lambda: 1,
        "object": lambda: object(), "dict": lambda: {"a": 1}, "true": lambda: True, "none": lambda: None,
        "biglist": lambda: list(range(1000)), "exception_instance": lambda: ValueError("returned, not raised"),
        # errors handed back instead of raised (task.exception(), an item of gather(return_exceptions=True)): values like any other
        "kbint_instance": lambda: KeyboardInterrupt(), "cancelled_instance": lambda: asyncio.CancelledError("handed back"),
        "stopiteration_instance": lambda: StopIteration("handed back"),
        "awaitable": Ticket, "generator": lambda: (i for i in range(3)), "function": lambda: make_value, "type": lambda: Ticket,
    }
    return table[kind]()


def causes(err):
    """All exception objects reachable from err through __cause__ edges and group members."""
    seen, todo = [], [err]
    while todo:
        e = todo.pop()
        if e is None or any(e is s for s in seen):
            continue
        seen.append(e)
        todo.append(e.__cause__)
        if isinstance(e, BaseExceptionGroup):
            todo.extend(e.exceptions)
    return seen


class MetaAdapter:
    """Drive a bare MetaRunner (run / stop / register_payload / run_payload) through the same interface."""

    def __init__(self):
        from cobald.daemon.runners.meta_runner import MetaRunner
        import functools

        self._partial = functools.partial
        self._meta_runner = MetaRunner()
        self.running = self._meta_runner.running

    def adopt(self, payload, *args, flavour, **kwargs):
        if args or kwargs:
            payload = self._partial(payload, *args, **kwargs)
        return self._meta_runner.register_payload(payload, flavour=flavour)

    def execute(self, payload, *args, flavour, **kwargs):
        if args or kwargs:
            payload = self._partial(payload, *args, **kwargs)
        return self._meta_runner.run_payload(payload, flavour=flavour)

    def accept(self):
        return self._meta_runner.run()

    def shutdown(self):
        return self._meta_runner.stop()


# ------------------------------------------------------------------------------ the world of one generation
class World:
    def __init__(self, gen_spec, gen_index):
        self.spec = gen_spec
        self.gen = gen_index
        if gen_spec.get("use_rejected_runner") and REJECTED_RUNNER[0] is not None:
            self.runner = REJECTED_RUNNER[0]  # the runner that was refused earlier now gets its turn
            REJECTED_RUNNER[0] = None
            self.rejected_runner_in_use = True
        elif gen_spec.get("reuse_runner") and PREVIOUS_RUNNER[0] is not None:
            self.runner = PREVIOUS_RUNNER[0]  # the same runner instance runs once more
        elif gen_spec.get("mode") == "meta":
            self.runner = MetaAdapter()
        else:
            self.runner = ServiceRunner(accept_delay=gen_spec.get("accept_delay", 0.05))
        self.payloads = {p["id"]: p for p in gen_spec.get("payloads", [])}
        self.services = {s["id"]: s for s in gen_spec.get("services", [])}
        self.release = threading.Event()
        self.gates = {}
        self.raised = {}  # pid -> exception object raised by the payload
        self.returned = {}  # pid -> object returned by the payload
        self.args = {}  # pid -> (args tuple, kwargs dict) as supplied
        self.instances = {}  # sid -> service instance (strong reference)
        if gen_spec.get("keep_instances"):
            KEPT_INSTANCES.append(self.instances)
        self.accept_done = threading.Event()
        self.overlap = {"asyncio": 0, "trio": 0}
        self.helpers = []
        self.rivals = []
        self.service_classes = {}
        self.callables = {}  # pid -> the callable built for it (handed out again by "adopt_same")
        self.watch_tids = set()  # kernel thread ids whose scheduler statistics the reference loop samples

    def gate(self, name):
        return self.gates.setdefault(name, threading.Event())

    def tevent(self, name, flavour):
        key = "%s:%s" % (flavour, name)
        if key not in self.gates:
            self.gates[key] = trio.Event() if flavour == "trio" else asyncio.Event()
        return self.gates[key]


def context_facts():
    facts = {"main": threading.current_thread() is threading.main_thread(), "tid": threading.get_native_id()}
    try:
        facts["lib"] = sniffio.current_async_library()
    except sniffio.AsyncLibraryNotFoundError:
        facts["lib"] = None
    try:
        facts["loop"] = id(asyncio.get_running_loop())
    except RuntimeError:
        facts["loop"] = None
    try:
        facts["token"] = id(trio.lowlevel.current_trio_token())
    except RuntimeError:
        facts["token"] = None
    return facts


class Grumpy:
    """An argument that cannot be printed: formatting it for a message must never decide whether a payload runs."""

    def __repr__(self):
        raise ValueError("this object does not want to be printed")

    __str__ = __repr__


def build_args(world, pid, pspec):
    args = tuple([list(a) if isinstance(a, list) else Grumpy() if a == "<grumpy>" else a for a in pspec.get("args", [])])
    kwargs = {k: (dict(v) if isinstance(v, dict) else v) for k, v in pspec.get("kwargs", {}).items()}
    world.args[pid] = (args, kwargs)
    return args, kwargs


def args_ok(world, pid, got_args, got_kwargs):
    want_args, want_kwargs = world.args.get(pid, ((), {}))
    if len(got_args) != len(want_args) or set(got_kwargs) != set(want_kwargs):
        return False
    same = all((a is b) if isinstance(b, (list, dict)) else (a == b and type(a) is type(b)) for a, b in zip(got_args, want_args))
    same = same and all((got_kwargs[k] is v) if isinstance(v, (list, dict)) else (got_kwargs[k] == v) for k, v in want_kwargs.items())
    return same


# ---- client boundary wrappers (call event before invoking, return event after) ------------------
def do_adopt(world, child_id, by, strict=False, same=False):
    child = world.payloads[child_id]
    fn = world.callables.get(child_id) if same else None  # same: the very callable object of the previous adoption
    if fn is None:
        fn = world.callables[child_id] = make_payload(world, child)
    args, kwargs = build_args(world, child_id, child)
    LOG("call", op="adopt", pid=child_id, by=by, gen=world.gen)
    try:
        ret = world.runner.adopt(fn, *args, flavour=FLAVOURS[child["flavour"]], **kwargs)
    except BaseException as err:  # noqa: B036
        LOG("raised", op="adopt", pid=child_id, by=by, gen=world.gen, exc=type(err).__name__, msg=text_of(err)[:200])
        if strict or isinstance(err, (KeyboardInterrupt, SystemExit, GeneratorExit, asyncio.CancelledError, trio.Cancelled)):
            raise  # strict: the calling payload does not expect adopt to fail, the error hits its own code
        return
    LOG("return", op="adopt", pid=child_id, by=by, gen=world.gen, value_is_none=ret is None)


def do_adopt_same(world, child_id, by):
    do_adopt(world, child_id, by, same=True)


def do_execute(world, child_id, by, same=False, strict_cancel=False):
    child = world.payloads[child_id]
    fn = world.callables.get(child_id) if same else None  # same: every caller hands in the very same callable object
    if child.get("builtin"):
        # a callable that is not a Python function at all (no introspectable signature): what it returns is the outcome
        fn = {"max": max, "int": int, "divmod": divmod, "str.format": "{}-{}".format}[child["builtin"]]
    elif fn is None:
        fn = make_payload(world, child)
        if same:
            fn = world.callables.setdefault(child_id, fn)
    args, kwargs = build_args(world, child_id, child)
    LOG("call", op="execute", pid=child_id, by=by, gen=world.gen)
    try:
        ret = world.runner.execute(fn, *args, flavour=FLAVOURS[child["flavour"]], **kwargs)
    except BaseException as err:  # noqa: B036
        want = world.raised.get(child_id)
        LOG("raised", op="execute", pid=child_id, by=by, gen=world.gen, exc=type(err).__name__, msg=text_of(err)[:200],
            same_object=err is want, payload_raised=want is not None,
            same_type_and_args=want is not None and type(err) is type(want) and err.args == want.args,
            same_name_and_args=want is not None and type(err).__name__ == type(want).__name__ and err.args == want.args)
        # the outcome of the executed payload is logged, not passed on: it must not become a failure
        # of the calling payload (a blocking call cannot be interrupted by a genuine cancellation)
        if isinstance(err, (KeyboardInterrupt, SystemExit, GeneratorExit)):
            raise
        if strict_cancel and type(err).__name__ == "CancelledError":
            raise  # a caller that does not expect its synchronous call to be cut short: the error is its own failure
        return
    have = child_id in world.returned
    LOG("return", op="execute", pid=child_id, by=by, gen=world.gen, payload_returned=have,
        same_object=have and ret is world.returned[child_id], repr=repr(ret)[:60])


def do_service(world, sid, by):
    sspec = world.services[sid]
    if sspec.get("shipped") == "FactoryPool":
        # a service cobald ships (trio flavour): what it calls - here its child factory - is part of its payload
        from cobald.composite.factory import FactoryPool
        from cobald.interfaces import Pool

        class Leaf(Pool):
            supply, utilisation, allocation = 0, 1.0, 1.0

            def __init__(self):
                self.demand = 1

        def factory():
            LOG("step", pid="svc:%s" % sid, gen=world.gen, n=-2, inside_section=world.overlap.get("trio", 0), **context_facts())
            return Leaf()

        LOG("call", op="service", pid="svc:%s" % sid, by=by, gen=world.gen)
        inst = FactoryPool(factory=factory, interval=sspec.get("interval", 0.05))
        inst.demand = sspec.get("demand", 3)
        world.instances[sid] = inst
        LOG("return", op="service", pid="svc:%s" % sid, by=by, gen=world.gen)
        return
    if sspec.get("shipped") in ("Stepwise", "Linear", "Buffer"):
        # other trio services cobald ships: the rule they evaluate and the pool they read and write report where that happens
        from cobald.interfaces import Pool

        notes = [0]

        def note():
            notes[0] += 1
            if notes[0] <= 40:
                LOG("step", pid="svc:%s" % sid, gen=world.gen, n=-2, inside_section=world.overlap.get("trio", 0), **context_facts())

        class Site(Pool):
            supply, allocation = 2, 0.75

            def __init__(self):
                self._demand = 4

            @property
            def utilisation(self):
                note()
                return 0.75

            @property
            def demand(self):
                return self._demand

            @demand.setter
            def demand(self, value):
                note()
                self._demand = value

        LOG("call", op="service", pid="svc:%s" % sid, by=by, gen=world.gen)
        if sspec["shipped"] == "Stepwise":
            from cobald.controller.stepwise import stepwise

            @stepwise
            def rule(pool, interval):
                note()
                return pool.demand + 1 if pool.demand < 50 else None

            inst = rule(Site(), interval=sspec.get("interval", 0.05))
        elif sspec["shipped"] == "Linear":
            from cobald.controller.linear import LinearController

            inst = LinearController(Site(), low_utilisation=0.9, high_allocation=0.95, rate=10, interval=sspec.get("interval", 0.05))
        else:
            from cobald.decorator.buffer import Buffer

            inst = Buffer(Site(), window=sspec.get("interval", 0.05))
            inst.demand = 7
        world.instances[sid] = inst
        LOG("return", op="service", pid="svc:%s" % sid, by=by, gen=world.gen)
        return
    cls = service_class(sspec["flavour"], sspec.get("shape", "plain"), sspec.get("base_flavour"))
    LOG("call", op="service", pid="svc:%s" % sid, by=by, gen=world.gen)
    if sspec.get("init_blocks"):
        # a service whose constructor takes its time (it opens a connection, reads a file): whoever constructs it blocks
        # (a service class of its own, declared with the decorator - not a subclass of one)
        raw = type("Slow_" + cls.__name__, (object,), {"__init__": lambda self, t=sspec["init_blocks"]: time.sleep(t), "run": service_class(sspec["flavour"]).run})
        cls = service(flavour=FLAVOURS[sspec["flavour"]])(raw)
        LOG("block-start", pid="ctor:%s" % sid, gen=world.gen, how="constructor")
        try:
            inst = cls()
        finally:
            LOG("block-end", pid="ctor:%s" % sid, gen=world.gen, how="constructor")
    else:
        inst = cls()
    SERVICE_SPECS[id(inst)] = (world, dict(sspec, id="svc:%s" % sid))
    world.instances[sid] = inst
    LOG("return", op="service", pid="svc:%s" % sid, by=by, gen=world.gen)


def do_shutdown(world, by):
    LOG("call", op="shutdown", by=by, gen=world.gen)
    try:
        world.runner.shutdown()
    except BaseException as err:  # noqa: B036
        LOG("raised", op="shutdown", by=by, gen=world.gen, exc=type(err).__name__, msg=text_of(err)[:300])
        return
    LOG("return", op="shutdown", by=by, gen=world.gen)


SERVICE_CLASSES = {}
SERVICE_SPECS = {}  # id(instance) -> (world, spec); filled right after construction


def service_class(flavour, shape="plain", base_flavour=None):
    """One service class per flavour, shared by all instances and generations (several pending
    instances of one class are a case of their own), and without __init__: the ServiceUnit is
    registered in __new__, i.e. before __init__ has run, and the accept loop may start run() in
    between (a race of its own, probed by the C13 check) - the harness must not depend on it.
    run() therefore waits until the harness has filed the instance's spec."""
    key = (flavour, shape, base_flavour)
    if key in SERVICE_CLASSES:
        return SERVICE_CLASSES[key]

    def body(fl):
        if fl == "threading":
            class Svc(object):
                def run(self):
                    for _ in range(4000):
                        if id(self) in SERVICE_SPECS:
                            break
                        time.sleep(0.0005)
                    world, bound = SERVICE_SPECS[id(self)]
                    return run_sync(world, bound, (), {})
        else:
            lib = asyncio if fl == "asyncio" else trio

            class Svc(object):
                async def run(self):
                    for _ in range(4000):
                        if id(self) in SERVICE_SPECS:
                            break
                        await lib.sleep(0.0005)
                    world, bound = SERVICE_SPECS[id(self)]
                    return await run_async(world, bound, (), {})
        Svc.__name__ = Svc.__qualname__ = "Svc_%s" % fl
        return Svc

    if shape == "plain":
        cls = service(flavour=FLAVOURS[flavour])(body(flavour))
    elif shape == "falsy":
        # a service that is also an (empty) container: a live instance whose truth value is False
        cls = type("Empty_%s" % flavour, (service_class(flavour),), {"__len__": lambda self: 0})
    elif shape == "subclass":
        cls = type("Sub_%s" % flavour, (service_class(flavour),), {})
    elif shape == "own_init":
        # a plain subclass with a constructor of its own that does not call the base's (the base has none to speak of)
        cls = type("OwnInit_%s" % flavour, (service_class(flavour),), {"__init__": lambda self: setattr(self, "configured", True)})
    elif shape == "valued":
        # value semantics (like a dataclass without fields that differ): all instances compare equal and hash alike
        cls = type("Valued_%s" % flavour, (service_class(flavour),), {"__eq__": lambda a, b: type(a) is type(b), "__hash__": lambda self: 7})
    else:  # "redecorated": a subclass of a service class that is declared a service again, possibly of another flavour
        base = service_class(base_flavour or flavour)
        cls = service(flavour=FLAVOURS[flavour])(type("Again_%s_%s" % (base_flavour or flavour, flavour), (base,), {"run": body(flavour).run}))
    SERVICE_CLASSES[key] = cls
    return cls


# ------------------------------------------------------------------------------ payload programs
class Finished(Exception):
    def __init__(self, value):
        self.value = value


def common_op(world, pspec, op):
    """Operations that never suspend; returns True if handled."""
    pid = pspec["id"]
    kind = op[0]
    if kind == "adopt":
        # ["adopt", id, "strict"]: the payload does not guard the call - whatever adopt raises hits the payload's own code
        do_adopt(world, op[1], by=pid, strict=len(op) > 2 and op[2] == "strict")
    elif kind == "adopt_same":
        do_adopt(world, op[1], by=pid, same=True)
    elif kind == "execute":
        do_execute(world, op[1], by=pid)
    elif kind == "service":
        do_service(world, op[1], by=pid)
    elif kind == "adopt_no_threads":
        # the adoption happens while thread creation fails (resource exhaustion): adopt may raise, but the
        # payload must not be run in the calling thread instead
        FAULT.no_threads = True
        try:
            do_adopt(world, op[1], by=pid)
        finally:
            FAULT.no_threads = False
    elif kind == "mark":
        LOG("mark", pid=pid, gen=world.gen, label=op[1])
    elif kind == "open_gate":
        world.gate(op[1]).set()
    elif kind == "raise":
        exc = make_exception(op[1])
        world.raised[pid] = exc
        LOG("fail", pid=pid, gen=world.gen, how="raise", what=op[1], accepting=bool(getattr(world.runner, "running", None) and world.runner.running.is_set()))
        raise exc
    elif kind == "return":
        value = make_value(op[1])
        world.returned[pid] = value
        LOG("fail" if value is not None and not pspec.get("executed") else "end", pid=pid, gen=world.gen, how="return", what=op[1])
        raise Finished(value)
    elif kind == "sigint":
        LOG("mark", pid=pid, gen=world.gen, label="sending SIGINT")
        os.kill(os.getpid(), signal.SIGINT)
    elif kind == "shutdown":
        do_shutdown(world, by=pid)
    elif kind == "crit":
        flavour = pspec["flavour"]
        if flavour in world.overlap:
            seen = world.overlap[flavour]
            world.overlap[flavour] = seen + 1
            x = 0
            for i in range(op[1]):
                x += i
            world.overlap[flavour] -= 1
            LOG("crit", pid=pid, gen=world.gen, entered_with=seen, **context_facts())
    elif kind == "crit_hold":
        # one long synchronous section: the payload keeps its loop to itself for op[1] seconds (a slow parser, a blocking call)
        flavour = pspec["flavour"]
        if flavour in world.overlap:
            seen = world.overlap[flavour]
            world.overlap[flavour] = seen + 1
            time.sleep(op[1])
            world.overlap[flavour] -= 1
            LOG("crit", pid=pid, gen=world.gen, entered_with=seen, held=op[1], **context_facts())
    elif kind == "crit_adopt":
        flavour = pspec["flavour"]
        if flavour in world.overlap:
            seen = world.overlap[flavour]
            world.overlap[flavour] = seen + 1
            do_adopt(world, op[1], by=pid)  # no checkpoint: the adoptee must not start before we leave
            x = 0
            for i in range(op[2]):
                x += i
            world.overlap[flavour] -= 1
            LOG("crit", pid=pid, gen=world.gen, entered_with=seen, **context_facts())
        else:
            do_adopt(world, op[1], by=pid)
    elif kind == "ctx":
        LOG("step", pid=pid, gen=world.gen, inside_section=world.overlap.get(pspec["flavour"], 0), **context_facts())
    else:
        return False
    return True


async def run_async(world, pspec, args, kwargs):
    pid, flavour = pspec["id"], pspec["flavour"]
    lib = asyncio if flavour == "asyncio" else trio
    cancel_exc = asyncio.CancelledError if flavour == "asyncio" else trio.Cancelled
    if pid.startswith("heart"):
        world.watch_tids.add(threading.get_native_id())
    LOG("start", pid=pid, gen=world.gen, flavour=flavour, args_ok=args_ok(world, pid, args, kwargs),
        nargs=len(args), kwkeys=sorted(kwargs), inside_section=world.overlap.get(flavour, 0), **context_facts())
    cleanup = pspec.get("cleanup", {"kind": "none"})
    try:
        try:
            for op in pspec.get("program", []):
                kind = op[0]
                if common_op(world, pspec, op):
                    continue
                if kind == "sleep":
                    await lib.sleep(op[1])
                elif kind == "beat":
                    n = 0
                    while op[2] is None or n < op[2]:
                        LOG("beat", pid=pid, gen=world.gen, n=n)
                        n += 1
                        await lib.sleep(op[1])
                elif kind == "spin":
                    n = 0
                    while op[1] is None or n < op[1]:
                        if n % 200 == 0:
                            LOG("step", pid=pid, gen=world.gen, n=n, **context_facts())
                        n += 1
                        await lib.sleep(0)
                elif kind == "dispatch":
                    # a dispatcher: adopts one short-lived worker per loop turn (op: flavour, count)
                    for i in range(op[2]):
                        cid = "%s.w%d" % (pid, i)
                        child = {"id": cid, "flavour": op[1], "program": [["sleep", 0.01]], "cleanup": {"kind": "none"}}
                        world.payloads[cid] = child
                        world.args[cid] = ((), {})
                        try:
                            world.runner.adopt(make_payload(world, child), flavour=FLAVOURS[op[1]])
                        except Exception as err:  # noqa: B902 - judged by C03, not here
                            LOG("raised", op="adopt", pid=cid, by=pid, gen=world.gen, exc=type(err).__name__, msg=text_of(err)[:100])
                            break
                        await lib.sleep(0)
                elif kind == "exec_loop":
                    # keeps calling into another flavour's runner (op: executed pid, count or None, pause)
                    n = 0
                    while op[2] is None or n < op[2]:
                        do_execute(world, op[1], by=pid, strict_cancel=len(op) > 4 and op[4] == "strict")
                        n += 1
                        await lib.sleep(op[3])
                elif kind == "shutdown_in_worker":
                    # shutdown() in a worker thread of the payload's own framework, awaited by the payload
                    if flavour == "trio":
                        await trio.to_thread.run_sync(do_shutdown, world, pid + "/worker")
                    else:
                        await asyncio.get_running_loop().run_in_executor(None, do_shutdown, world, pid + "/worker")
                elif kind == "block":
                    while True:
                        await lib.sleep(3600)
                elif kind == "wait_private":
                    # "run until cancelled": wait for something only this frame references
                    LOG("step", pid=pid, gen=world.gen, inside_section=0, **context_facts())
                    if flavour == "asyncio":
                        await asyncio.get_running_loop().create_future()
                    else:
                        await trio.Event().wait()
                elif kind == "executor_job":
                    # waits for a job in a worker thread of the loop's default executor (a blocking library call); when the
                    # payload is cancelled it tells the job to come back
                    done = threading.Event()
                    LOG("step", pid=pid, gen=world.gen, n=0, inside_section=0, **context_facts())
                    try:
                        if flavour == "asyncio":
                            await asyncio.get_running_loop().run_in_executor(None, done.wait, 60)
                        else:
                            await trio.to_thread.run_sync(done.wait, 60, abandon_on_cancel=True)
                    finally:
                        done.set()
                elif kind == "tevent_wait":
                    # wait on an event of the framework itself: everybody waiting on it wakes up in the same scheduler tick
                    await world.tevent(op[1], flavour).wait()
                elif kind == "tevent_set":
                    world.tevent(op[1], flavour).set()
                elif kind == "gate":
                    gate = world.gate(op[1])
                    waited = 0.0
                    while not gate.is_set():
                        await lib.sleep(0.005)
                        waited += 0.005
                        if waited > op[2] if len(op) > 2 else False:
                            LOG("gate-timeout", pid=pid, gen=world.gen, gate=op[1])
                            break
                    LOG("gate-passed", pid=pid, gen=world.gen, gate=op[1])
                else:
                    raise AssertionError("unknown op %r" % (op,))
        except cancel_exc:
            LOG("cancelled", pid=pid, gen=world.gen)
            if pspec.get("handover"):
                # a payload that hands its work over to a successor while it is being cancelled
                do_adopt(world, pspec["handover"], by=pid)
            if pspec.get("renew") is not None and pspec["renew"] < 3000:
                # a keep-alive payload: whenever it ends it adopts a fresh copy of itself (a supervisor restarting its worker)
                clone = dict(pspec, id="%s'%d" % (pid.split("'")[0], pspec["renew"] + 1), renew=pspec["renew"] + 1)
                world.payloads[clone["id"]] = clone
                do_adopt(world, clone["id"], by=pid)
            if cleanup["kind"] == "shielded" and flavour == "trio":
                with trio.CancelScope(shield=True):
                    if cleanup.get("await_gate"):
                        # the cleanup drains what another payload still delivers while *that* one is being torn down
                        gate, waited = world.gate(cleanup["await_gate"]), 0.0
                        while not gate.is_set() and waited < 60:
                            await trio.sleep(0.005)
                            waited += 0.005
                    elif cleanup.get("shutdown_mid"):
                        # the cleanup asks for an orderly shutdown of the whole runtime, from a helper thread, and waits for it
                        await trio.sleep(cleanup["dur"] / 2)
                        await trio.to_thread.run_sync(do_shutdown, world, pid + "/cleanup")
                        await trio.sleep(cleanup["dur"] / 2)
                    elif cleanup.get("execute_mid"):
                        # the cleanup needs something done in the other loop (flush a buffer, deregister): a blocking call half way through
                        await trio.sleep(cleanup["dur"] / 2)
                        do_execute(world, cleanup["execute_mid"], by=pid)
                        await trio.sleep(cleanup["dur"] / 2)
                    elif cleanup.get("handover_mid"):
                        # the cleanup hands work over half way through, like any other line of it
                        await trio.sleep(cleanup["dur"] / 2)
                        do_adopt(world, cleanup["handover_mid"], by=pid, strict=True)
                        await trio.sleep(cleanup["dur"] / 2)
                    else:
                        await trio.sleep(cleanup["dur"])
                LOG("cleanup-done", pid=pid, gen=world.gen, how="shielded")
            if cleanup["kind"] == "fail_on_cancel":
                # a payload that answers its cancellation with a failure of its own: a cleanup that raises,
                # or a handler that turns the cancellation into a return value
                if cleanup["how"] == "raise":
                    exc = make_exception(cleanup["what"])
                    world.raised[pid] = exc
                    LOG("fail-on-cancel", pid=pid, gen=world.gen, how="raise", what=cleanup["what"])
                    raise exc
                # a value of its own, so that an orphaned-return error can be traced back to this payload
                value = {"str": "status of %s" % pid, "dict": {"status": pid}, "list": [pid]}[cleanup["what"]]
                world.returned[pid] = value
                LOG("fail-on-cancel", pid=pid, gen=world.gen, how="return", what=cleanup["what"])
                return value
            if cleanup["kind"] == "absorb":
                # a stubborn worker: it treats a cancellation as an interrupted step and goes back to waiting;
                # only after `times` further cancellations does it give up
                absorbed = 0
                while absorbed < cleanup["times"]:
                    try:
                        await lib.sleep(3600)
                    except cancel_exc:
                        absorbed += 1
                        LOG("cancelled-again", pid=pid, gen=world.gen, n=absorbed)
                LOG("cleanup-done", pid=pid, gen=world.gen, how="absorb")
            if cleanup["kind"] == "async" and flavour == "asyncio":
                # a finally block that awaits a few (zero-length) steps
                began, step = time.monotonic(), 0
                try:
                    for step in range(cleanup["steps"]):
                        await asyncio.sleep(cleanup.get("pause", 0))
                except cancel_exc:
                    LOG("cleanup-interrupted", pid=pid, gen=world.gen, after=round(time.monotonic() - began, 4), step=step)
                    raise
                LOG("cleanup-done", pid=pid, gen=world.gen, how="async", took=round(time.monotonic() - began, 4))
            raise
        finally:
            if cleanup["kind"] == "sync":
                time.sleep(cleanup["dur"])
                if cleanup.get("open_gate"):
                    world.gate(cleanup["open_gate"]).set()  # the end-of-stream marker others wait for
                LOG("cleanup-done", pid=pid, gen=world.gen, how="sync")
    except Finished as fin:
        return fin.value
    LOG("end", pid=pid, gen=world.gen, how="fell-through")
    return None


def run_sync(world, pspec, args, kwargs):
    pid = pspec["id"]
    LOG("start", pid=pid, gen=world.gen, flavour="threading", args_ok=args_ok(world, pid, args, kwargs),
        nargs=len(args), kwkeys=sorted(kwargs), **context_facts())
    try:
        for op in pspec.get("program", []):
            kind = op[0]
            if common_op(world, pspec, op):
                continue
            if kind == "sleep":
                time.sleep(op[1])
            elif kind == "beat":
                n = 0
                while (op[2] is None or n < op[2]) and not world.release.is_set():
                    LOG("beat", pid=pid, gen=world.gen, n=n)
                    n += 1
                    time.sleep(op[1])
            elif kind == "spin":
                n = 0
                while (op[1] is None or n < op[1]) and not world.release.is_set():
                    n += 1
                    time.sleep(0)
            elif kind == "block":
                LOG("block-start", pid=pid, gen=world.gen)
                world.release.wait(op[1] if len(op) > 1 else None)
                LOG("block-end", pid=pid, gen=world.gen)
            elif kind == "burn":
                # blocks by computing: a pure Python loop that never gives up the interpreter voluntarily
                LOG("block-start", pid=pid, gen=world.gen, how="burn", cpu=time.process_time())
                end, x = time.monotonic() + op[1], 0
                while time.monotonic() < end:
                    x += 1
                LOG("block-end", pid=pid, gen=world.gen, how="burn", cpu=time.process_time())
            elif kind == "exec_loop":
                # keeps calling into a coroutine flavour's runner (op: executed pid, count or None, pause)
                n = 0
                while (op[2] is None or n < op[2]) and not world.release.is_set() and not world.accept_done.is_set():
                    do_execute(world, op[1], by=pid, strict_cancel=len(op) > 4 and op[4] == "strict")
                    n += 1
                    time.sleep(op[3])
            elif kind == "adopt_stream":
                # a thread payload that keeps handing over short-lived payloads (op: flavour, pause) - also while the runtime
                # shuts down. adopt() raising here is this payload's failure, as it would be for a user's dispatcher thread
                n = 0
                while not world.release.is_set() and not world.accept_done.is_set() and n < 4000:
                    cid = "%s.w%d" % (pid, n)
                    child = {"id": cid, "flavour": op[1], "program": [], "cleanup": {"kind": "none"}}
                    world.payloads[cid] = child
                    world.args[cid] = ((), {})
                    LOG("stream-adopt", pid=cid, by=pid, gen=world.gen)
                    world.runner.adopt(make_payload(world, child), flavour=FLAVOURS[op[1]])
                    n += 1
                    time.sleep(op[2])
            elif kind == "private_trio_execute":
                # a thread payload that drives a trio run of its own; one of that run's worker threads calls execute()
                async def _foreign_trio(children=op[1]):
                    for child in children:
                        await trio.to_thread.run_sync(do_execute, world, child, pid)

                trio.run(_foreign_trio)
            elif kind == "private_loop_adopt":
                # a thread payload that drives its own private asyncio loop and adopts from inside it
                async def _foreign(children=op[1], linger=op[2]):
                    for child in children:
                        do_adopt(world, child, by=pid)
                    await asyncio.sleep(linger)

                asyncio.run(_foreign())
            elif kind == "gate":
                if not world.gate(op[1]).wait(op[2] if len(op) > 2 else 10):
                    LOG("gate-timeout", pid=pid, gen=world.gen, gate=op[1])
                LOG("gate-passed", pid=pid, gen=world.gen, gate=op[1])
            else:
                raise AssertionError("unknown op %r" % (op,))
    except Finished as fin:
        return fin.value
    LOG("end", pid=pid, gen=world.gen, how="fell-through")
    return None


def run_delay(tid):
    """Seconds the thread has spent runnable but waiting for a CPU (scheduler statistics), or None."""
    try:
        with open("/proc/self/task/%d/schedstat" % tid) as f:
            return int(f.read().split()[1]) / 1e9
    except (OSError, IndexError, ValueError):
        return None


def make_payload(world, pspec):
    if pspec.get("call_raises"):
        def payload(*args, **kwargs):
            exc = make_exception(pspec["call_raises"])
            world.raised[pspec["id"]] = exc
            LOG("start", pid=pspec["id"], gen=world.gen, flavour=pspec["flavour"], args_ok=True, nargs=len(args), kwkeys=sorted(kwargs),
                **context_facts())
            LOG("fail", pid=pspec["id"], gen=world.gen, how="raise", what=pspec["call_raises"], at="call")
            raise exc

        payload.__name__ = payload.__qualname__ = "payload_%s" % pspec["id"]
        return payload
    if pspec["flavour"] == "threading":
        def payload(*args, **kwargs):
            return run_sync(world, pspec, args, kwargs)
    else:
        async def payload(*args, **kwargs):
            return await run_async(world, pspec, args, kwargs)
    payload.__name__ = payload.__qualname__ = "payload_%s" % pspec["id"]

    def prefix():
        LOG("step", pid=pspec["id"], gen=world.gen, n=-1, inside_section=world.overlap.get(pspec["flavour"], 0), **context_facts())

    return dress(payload, pspec.get("callable", "function"), prefix)


def dress(inner, how, prefix=None):
    """The same payload as another kind of callable: what matters is what calling it gives."""
    if how == "function":
        return inner
    if how in ("prefixed", "marked"):
        def prefixed(*args, **kwargs):
            # a plain function: a synchronous first section, then it hands out the coroutine (or result) of the inner one
            prefix()
            return inner(*args, **kwargs)

        prefixed.__name__ = prefixed.__qualname__ = inner.__name__
        if how == "marked" and asyncio.iscoroutinefunction(inner):
            import inspect

            inspect.markcoroutinefunction(prefixed)  # a decorator-style wrapper that declares itself a coroutine function
        return prefixed
    if how == "lambda":
        return lambda *args, **kwargs: inner(*args, **kwargs)
    if how == "wrapped":
        @functools.wraps(inner)
        def wrapper(*args, **kwargs):  # a plain function handing out the coroutine / the result of the inner one
            return inner(*args, **kwargs)

        return wrapper
    if how == "partial":
        return functools.partial(inner)
    if how == "nomodule":
        # a callable that belongs to no module, like the bound methods of built-in objects (list.append, queue.put)
        def detached(*args, **kwargs):
            return inner(*args, **kwargs)

        detached.__module__ = None
        return detached
    coroutine = asyncio.iscoroutinefunction(inner)

    class Job:
        if coroutine:
            async def __call__(self, *args, **kwargs):
                return await inner(*args, **kwargs)

            async def work(self, *args, **kwargs):
                return await inner(*args, **kwargs)
        else:
            def __call__(self, *args, **kwargs):
                return inner(*args, **kwargs)

            def work(self, *args, **kwargs):
                return inner(*args, **kwargs)

        def __repr__(self):
            return "<Job %s>" % inner.__name__

    if how == "unhashable":
        # a callable object with value equality and therefore no hash (a plain dataclass with __call__)
        Job.__eq__ = lambda self, other: type(self) is type(other)
        Job.__hash__ = None
        return Job()
    if how == "object":
        return Job()
    if how == "method":
        return Job().work
    raise AssertionError("unknown kind of callable %r" % (how,))


CALLABLE_KINDS = ["function", "lambda", "wrapped", "partial", "object", "method", "prefixed", "marked", "unhashable", "nomodule"]


# ------------------------------------------------------------------------------ driver thread
def play(world, ops, by):
    for op in ops:
        kind = op[0]
        try:
            if kind == "wait_running":
                ok = world.runner.running.wait(op[1])
                LOG("running-observed" if ok else "running-timeout", gen=world.gen, by=by)
                if not ok:
                    return
            elif kind == "sleep":
                time.sleep(op[1])
            elif kind == "adopt":
                do_adopt(world, op[1], by=by)
            elif kind == "execute":
                do_execute(world, op[1], by=by)
            elif kind == "service":
                do_service(world, op[1], by=by)
            elif kind == "shutdown":
                do_shutdown(world, by=by)
            elif kind == "sigint":
                LOG("mark", gen=world.gen, label="sending SIGINT", by=by)
                os.kill(os.getpid(), signal.SIGINT)
            elif kind == "stop":
                LOG("call", op="stop", by=by, gen=world.gen)
                try:
                    world.runner._meta_runner.stop()
                except BaseException as err:  # noqa: B036
                    LOG("raised", op="stop", by=by, gen=world.gen, exc=type(err).__name__, msg=text_of(err)[:300])
                else:
                    LOG("return", op="stop", by=by, gen=world.gen)
            elif kind == "wait_event":
                want_kind, want_pid, timeout = op[1], op[2], op[3]
                hit = LOG.wait_for(lambda e: e["kind"] == want_kind and e.get("gen") == world.gen and (want_pid is None or e.get("pid") == want_pid), timeout)
                if hit is None:
                    LOG("wait-timeout", gen=world.gen, by=by, awaited=[want_kind, want_pid])
            elif kind == "open_gate":
                world.gate(op[1]).set()
                LOG("gate-opened", gen=world.gen, gate=op[1], by=by)
            elif kind == "second_accept":
                # "same": the concurrent accept is made on the very runner that is accepting already
                other = world.runner if len(op) > 1 and op[1] == "same" else ServiceRunner(accept_delay=0.05)
                LOG("call", op="second_accept", by=by, gen=world.gen, same=other is world.runner)
                try:
                    other.accept()
                except BaseException as err:  # noqa: B036
                    LOG("raised", op="second_accept", by=by, gen=world.gen, exc=type(err).__name__, msg=text_of(err)[:200])
                else:
                    LOG("return", op="second_accept", by=by, gen=world.gen)
                if len(op) > 1 and op[1] == "cleanup":
                    # the usual try/finally around a runner: shut it down although it never got to accept
                    try:
                        other.shutdown()
                        LOG("rejected-runner-shut-down", by=by, gen=world.gen)
                        if other is not world.runner:
                            REJECTED_RUNNER[0] = other
                    except BaseException as err:  # noqa: B036
                        LOG("raised", op="shutdown-of-rejected-runner", by=by, gen=world.gen, exc=type(err).__name__, msg=text_of(err)[:200])
            elif kind == "adopt_stream":
                # an outside thread that keeps adopting short-lived payloads (op: flavour, pause) until the run call has ended
                n = 0
                while not world.accept_done.is_set() and n < 3000:
                    cid = "%s.s%d" % (by.replace("/", "_"), n)
                    world.payloads[cid] = {"id": cid, "flavour": op[1], "program": [], "cleanup": {"kind": "none"}}
                    do_adopt(world, cid, by)
                    n += 1
                    time.sleep(op[2])
            elif kind == "rival_runtime":
                # a second, independent runtime in the same process: a bare MetaRunner, which no accept guard covers
                from cobald.daemon.runners.meta_runner import MetaRunner

                rival = MetaRunner()
                world.rivals.append(rival)

                def run_rival(rival=rival):
                    try:
                        rival.run()
                        LOG("rival-ended", gen=world.gen, outcome="returned")
                    except BaseException as err:  # noqa: B036
                        LOG("rival-ended", gen=world.gen, outcome="raised", exc=type(err).__name__, msg=text_of(err)[:200])

                t = threading.Thread(target=run_rival, daemon=True)
                t.start()
                if rival.running.wait(10):
                    LOG("rival-running", gen=world.gen)
            elif kind == "gc":
                gc.collect()
            elif kind == "drop_service":
                LOG("call", op="drop_service", pid="svc:%s" % op[1], by=by, gen=world.gen)
                gone = world.instances.pop(op[1], None)
                SERVICE_SPECS.pop(id(gone), None)
                del gone
                gc.collect()
            elif kind == "execute_same_burst":
                # op[2] threads call execute() with the very same callable at the same instant
                gate = threading.Barrier(op[2])

                def at_once(name, pid=op[1]):
                    gate.wait()
                    do_execute(world, pid, by=name, same=True)

                for i in range(op[2]):
                    t = threading.Thread(target=at_once, args=("%s/same%d" % (by, i),), daemon=True)
                    world.helpers.append(t)
                    t.start()
            elif kind == "shutdown_burst":
                # op[1] threads call shutdown() at the same instant
                barrier = threading.Barrier(op[1])

                def together(name):
                    barrier.wait()
                    do_shutdown(world, by=name)

                for i in range(op[1]):
                    t = threading.Thread(target=together, args=("%s/burst%d" % (by, i),), daemon=True)
                    world.helpers.append(t)
                    t.start()
            elif kind == "thread":
                t = threading.Thread(target=play, args=(world, op[1], "%s/helper%d" % (by, id(op) % 1000)), daemon=True)
                world.helpers.append(t)
                t.start()
            elif kind == "probe_running":
                LOG("probe", gen=world.gen, accepting=world.runner.running.is_set())
            elif kind == "quiesce":
                if len(op) > 2:
                    # settle first: the submitting helper threads are done and no payload has started for op[1] seconds
                    # (at most op[2] seconds) - on a loaded machine a fixed pause is not enough
                    deadline = time.monotonic() + op[2]
                    for helper in list(world.helpers):
                        helper.join(timeout=max(0.0, deadline - time.monotonic()))

                    def starts():
                        with LOG.lock:
                            return sum(1 for e in LOG.events if e["kind"] == "start" and e.get("gen") == world.gen)

                    seen, since = starts(), time.monotonic()
                    while time.monotonic() < deadline:
                        time.sleep(0.05)
                        now = starts()
                        if now != seen:
                            seen, since = now, time.monotonic()
                        elif time.monotonic() - since >= op[1]:
                            break
                LOG("quiescent", gen=world.gen)
            elif kind == "expect_end":
                # bounded-progress restatement of "the run ends": generous patience, judged by the oracle. The patience counts
                # from the moment the end was asked for (a stop request, a failure, an interrupt) - on a busy machine the payload
                # that is to ask for it may itself be started late; how long that takes is not what is judged here
                def asks(e):
                    return e.get("gen") == world.gen and ((e["kind"] == "call" and e.get("op") == "shutdown") or e["kind"] in ("fail", "mark"))

                began = time.monotonic()
                asked = None
                while asked is None and not world.accept_done.is_set() and time.monotonic() - began < 30:
                    asked = LOG.wait_for(asks, 0.2)
                if asked is not None:
                    left = op[1] - ((time.monotonic() - LOG.t0) - asked["t"])
                    if not world.accept_done.wait(max(left, 0.0)):
                        LOG("accept-still-running", gen=world.gen, patience=op[1], since=asked["kind"])
                elif not world.accept_done.is_set():
                    LOG("accept-still-running", gen=world.gen, patience=op[1], since=None)
            else:
                raise AssertionError("unknown driver op %r" % (op,))
        except BaseException as err:  # noqa: B036
            LOG("driver-error", gen=world.gen, by=by, op=op, exc=repr(err))
            return


def driver(world):
    play(world, world.spec.get("script", []), "driver")
    if not world.accept_done.is_set():
        # the harness ends the generation
        time.sleep(world.spec.get("linger", 0.0))
        with LOG.lock:
            was_up = any(e["kind"] == "running-observed" and e.get("gen") == world.gen for e in LOG.events)
        if not world.accept_done.is_set() and (world.runner.running.is_set() or was_up):
            # also when the runner reported running once and no longer does (its accept loop gave up by itself)
            LOG("call", op="shutdown", by="harness", gen=world.gen)
            try:
                world.runner.shutdown()
            except BaseException as err:  # noqa: B036
                LOG("raised", op="shutdown", by="harness", gen=world.gen, exc=type(err).__name__, msg=text_of(err)[:300])
            else:
                LOG("return", op="shutdown", by="harness", gen=world.gen)
    for rival in world.rivals:
        try:
            rival.stop()
        except BaseException as err:  # noqa: B036
            LOG("raised", op="stop-of-rival", by="harness", gen=world.gen, exc=type(err).__name__, msg=text_of(err)[:200])
    LOG("driver-done", gen=world.gen)


# ------------------------------------------------------------------------------ main thread
def run_generation(gen_spec, index):
    global WORLD
    gc.collect()
    world = WORLD = World(gen_spec, index)
    PREVIOUS_RUNNER[0] = world.runner
    LOG("generation", gen=index, reused_runner=bool(gen_spec.get("reuse_runner")), switchinterval=sys.getswitchinterval(),
        rejected_runner=bool(getattr(world, "rejected_runner_in_use", False)))
    early = []
    for p in gen_spec.get("payloads", []):
        if p.get("when") == "queued":
            early.append((do_adopt, p["id"]))
            for _ in range(p.get("repeat", 1) - 1):
                early.append((do_adopt_same, p["id"]))  # the very same callable object once more
    early += [(do_service, s["id"]) for s in gen_spec.get("services", []) if s.get("create") == "before"]
    if gen_spec.get("idle_runner"):
        # a second runner object in the same process (say the global cobald.daemon.runtime next to a private one) that is
        # never started: what is queued on it belongs to it
        world.idle_runner = ServiceRunner(accept_delay=0.05)
        for pid in gen_spec["idle_runner"]:
            child = world.payloads[pid]
            args, kwargs = build_args(world, pid, child)
            world.idle_runner.adopt(make_payload(world, child), *args, flavour=FLAVOURS[child["flavour"]], **kwargs)
            LOG("queued-on-idle-runner", pid=pid, gen=world.gen)
    k = gen_spec.get("prestart_threads", 0)
    if k and early:
        # several threads register their payloads at the same time before the runtime exists
        barrier = threading.Barrier(k)

        def submit(mine, name):
            barrier.wait()
            for fn, pid in mine:
                fn(world, pid, by=name)

        helpers = [threading.Thread(target=submit, args=(early[i::k], "prestart-%d" % i), daemon=True) for i in range(k)]
        for t in helpers:
            t.start()
        for t in helpers:
            t.join()
    else:
        for fn, pid in early:
            fn(world, pid, by="main-before-accept")
    if gen_spec.get("ticker"):
        # a reference event loop of the harness' own (nothing of cobald in it) beating every 10 ms: it costs per beat what
        # a runner's loop costs (timer wake-up, interpreter hand-over, one log entry), so it tells a starved machine or a
        # contended interpreter from a loop that is held up by a payload
        def tick():
            async def beat():
                n = 0
                while not world.accept_done.is_set() and n < 3000:
                    if n % 5 == 0 and world.watch_tids:
                        # how long the watched threads (the runners' loop threads) have been runnable without a CPU so far
                        LOG("tick", gen=index, n=n, waited={str(t): run_delay(t) for t in list(world.watch_tids)})
                    else:
                        LOG("tick", gen=index, n=n)
                    n += 1
                    await asyncio.sleep(0.01)

            loop = asyncio.new_event_loop()
            try:
                loop.run_until_complete(beat())
            finally:
                loop.close()

        threading.Thread(target=tick, name="ticker", daemon=True).start()
    thread = threading.Thread(target=driver, args=(world,), name="driver", daemon=True)
    thread.start()
    def accept_and_log():
        LOG("call", op="accept", gen=index)
        try:
            try:
                world.runner.accept()
            finally:
                world.accept_done.set()
        except BaseException as err:  # noqa: B036
            reach = causes(err)[1:] if isinstance(err, RuntimeError) else []
            matched = []
            for pid, exc in list(world.raised.items()):
                if any(r is exc for r in reach):
                    matched.append(pid)
                elif isinstance(exc, BaseExceptionGroup):
                    # "looking through exception groups": trio's cancel scopes split() groups, which
                    # re-derives nested group objects - the leaves keep their identity
                    leaves = [x for x in causes(exc) if not isinstance(x, BaseExceptionGroup)]
                    if leaves and all(any(r is leaf for r in reach) for leaf in leaves):
                        matched.append(pid)
            for pid, value in list(world.returned.items()):
                if any(isinstance(r, OrphanedReturn) and r.value is value for r in reach):
                    matched.append(pid)
            direct = [pid for pid, exc in list(world.raised.items()) if any(r is exc for r in causes(err))]
            LOG("accept-ended", gen=index, outcome="raised", exc=type(err).__name__, msg=text_of(err)[:200],
                cause=type(err.__cause__).__name__ if err.__cause__ is not None else None,
                matched=sorted(set(matched)), reach=[type(r).__name__ for r in reach][:12], direct=sorted(set(direct)),
                reach_msgs=[text_of(r)[:160] for r in reach if not isinstance(r, BaseExceptionGroup)][:6])
        else:
            LOG("accept-ended", gen=index, outcome="returned")

    if gen_spec.get("accept_in_thread"):
        # the runtime runs in a thread of its own (as the test suite and embedding applications do); the main thread plays
        # `main_script` - it is the one a SIGINT interrupts
        runtime = threading.Thread(target=accept_and_log, name="runtime", daemon=True)
        runtime.start()
        try:
            play(world, gen_spec.get("main_script", []), "main")
        except KeyboardInterrupt:
            LOG("main-interrupted", gen=index)
        for _ in range(600):
            try:
                runtime.join(timeout=0.05)
            except KeyboardInterrupt:
                LOG("main-interrupted", gen=index)
            if not runtime.is_alive():
                break
    else:
        accept_and_log()
    # stragglers: anything a coroutine payload logs from now on is "after the call ended"
    try:
        time.sleep(gen_spec.get("grace", 0.4))
    except KeyboardInterrupt:
        LOG("stray-sigint", gen=index)
    world.release.set()
    for gate in world.gates.values():
        gate.set()
    thread.join(timeout=gen_spec.get("driver_join", 8))
    if thread.is_alive():
        LOG("driver-stuck", gen=index)
    # helper threads may still be inside (injected) delays: give them time, so that a call that has not returned
    # by now really is stuck
    deadline = time.monotonic() + gen_spec.get("helper_join", 6)
    for helper in list(world.helpers):
        helper.join(timeout=max(0.0, deadline - time.monotonic()))
        if helper.is_alive():
            LOG("helper-stuck", gen=index)
    # thread payloads may also still be inside a (delayed) shutdown / adopt / execute call: a call counts as
    # "never returned" only if it is still open after this wait
    def open_calls():
        with LOG.lock:
            events = [e for e in LOG.events if e.get("gen") == index]
        done = {}
        for e in events:
            if e["kind"] in ("return", "raised"):
                key = (e.get("op"), e.get("pid"), e.get("by"))
                done[key] = done.get(key, 0) + 1
        pending = 0
        for e in events:
            if e["kind"] == "call" and e.get("op") in ("shutdown", "adopt", "execute", "stop"):
                key = (e.get("op"), e.get("pid"), e.get("by"))
                if done.get(key, 0) > 0:
                    done[key] -= 1
                else:
                    pending += 1
        return pending

    while open_calls() and time.monotonic() < deadline:
        time.sleep(0.05)
    if open_calls() and STACK_FILE is not None:
        # a client call that is still open now is stuck: record where
        STACK_FILE.write("--- open client calls at the end of generation %d ---\n" % index)
        faulthandler.dump_traceback(file=STACK_FILE, all_threads=True)
        STACK_FILE.flush()
    LOG("generation-end", gen=index, running_flag=world.runner.running.is_set(), switchinterval=sys.getswitchinterval())


STACK_FILE = None


def main():
    global LOG, STACK_FILE
    spec_file, events_file = sys.argv[1:3]
    with open(spec_file) as f:
        spec = json.load(f)
    LOG = Log(events_file)
    stack_file = STACK_FILE = open(events_file + ".stacks", "w")

    class AcceptorLog(logging.Handler):
        """How the accept loop of the service runner ended, as it reports it on its own logger."""

        def emit(self, record):
            for word in ("started", "stopped", "cancelled", "aborted"):
                if str(record.msg).endswith(word):
                    LOG("acceptor", gen=WORLD.gen if WORLD is not None else None, how=word)

    services_log = logging.getLogger("cobald.runtime.daemon.services")
    services_log.setLevel(logging.INFO)
    services_log.propagate = False
    services_log.addHandler(AcceptorLog())
    faulthandler.enable(file=stack_file)
    faulthandler.dump_traceback_later(spec.get("watchdog", 20), exit=True, file=stack_file)
    inj = None
    if spec.get("inject"):
        from . import inject

        inj = inject.Injector(spec["inject"])
        inj.start()
    try:
        for index, gen_spec in enumerate(spec["generations"]):
            try:
                run_generation(gen_spec, index)
            except KeyboardInterrupt:
                LOG("stray-sigint", gen=index)
    except BaseException as err:  # noqa: B036
        import traceback

        LOG("harness-error", exc=repr(err), tb=traceback.format_exc()[-1500:])
    finally:
        if inj is not None:
            inj.stop()
            LOG("inject-stats", hits=inj.stats())
        LOG("scenario-end")
        LOG.file.flush()
        faulthandler.cancel_dump_traceback_later()
    os._exit(0)


if __name__ == "__main__":
    main()
