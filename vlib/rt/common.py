"""Shared pieces of the E1 checks: scenario building blocks, running, hang classification."""
from .. import core
from .launch import run_scenario

COROUTINE = ("asyncio", "trio")
FLAVOURS = ("asyncio", "trio", "threading")

EXC_KINDS = ["LookupError", "ValueError", "KeyError", "CustomWithArgs", "StopAsyncIteration", "TimeoutError", "OSError",
             "AssertionError", "RuntimeError", "ExceptionGroup", "InvalidStateError", "FuturesCancelledError", "Unprintable", "EmptyErrors",
             "TrioClosedResourceError", "TrioBrokenResourceError", "TrioEndOfChannel", "EndOfAsyncStream"]
THREAD_ONLY_EXC = ["StopIteration", "AsyncioCancelledErrorAsException"]
BASE_KINDS = ["SystemExit", "SystemExitZero", "SystemExitNone", "GeneratorExit", "CustomBase"]
RETURN_KINDS = ["zero", "zerofloat", "false", "emptystr", "emptylist", "emptytuple", "emptybytes", "emptydict", "str", "one",
                "object", "dict", "true", "awaitable", "generator", "exception_instance", "kbint_instance", "cancelled_instance", "stopiteration_instance"]


def bystander(rnd, pid, flavour=None, when=None):
    flavour = flavour or rnd.choice(FLAVOURS)
    when = when or rnd.choice(["queued", "running"])
    if flavour == "threading":
        program = rnd.choice([[["block"]], [["beat", 0.02, None]], [["sleep", 0.01]], [["beat", 0.01, 5]]])
        cleanup = {"kind": "none"}
    else:
        program = rnd.choice([[["beat", 0.01, None]], [["beat", 0.02, None]], [["spin", None]], [["sleep", 0.02]], [["block"]],
                              [["beat", 0.005, 8]]])
        kinds = [{"kind": "none"}, {"kind": "sync", "dur": rnd.choice([0, 0.005, 0.02])}]
        if flavour == "trio":
            kinds.append({"kind": "shielded", "dur": rnd.choice([0.01, 0.05, 0.15])})
        if when == "queued":
            # a stubborn worker that has to be cancelled more than once before it gives up. Only for payloads that are
            # certainly registered before the termination begins: one whose adoption races with the failure may be started
            # after the asyncio runner has finished closing, is then cancelled just once by asyncio.run's finalisation and
            # blocks it forever (observed on the unchanged tree; asyncio's behaviour for tasks that swallow CancelledError)
            kinds.append({"kind": "absorb", "times": rnd.choice([1, 1, 2, 3])})
        cleanup = rnd.choice(kinds)
    spec = {"id": pid, "flavour": flavour, "program": program, "cleanup": cleanup,
            "when": when}
    if rnd.random() < 0.3:
        spec["args"] = rnd.choice([[1], [[1, 2]], [], ["a", 2.5]])
        spec["kwargs"] = rnd.choice([{}, {"k": 1}, {"opt": {"x": 1}}])
    return spec


def inject_conf(rnd, p=0.7):
    if rnd.random() < p:
        return {"seed": rnd.randint(0, 10**6), "p_yield": rnd.choice([0.05, 0.2, 0.5]), "p_sleep": rnd.choice([0.0, 0.01, 0.03]),
                "max_sleep": rnd.choice([0.001, 0.003])}
    return None


def shape(spec):
    """Scenario shape: what kind of payloads / triggers, ignoring ids, delays and seeds."""
    out = []
    for gen in spec["generations"]:
        pl = sorted((p["flavour"], p.get("when", "-"), tuple(op[0] for op in p.get("program", [])),
                     p.get("cleanup", {}).get("kind", "none")) for p in gen.get("payloads", []))
        sv = sorted((s["flavour"], s.get("create", "-"), tuple(op[0] for op in s.get("program", []))) for s in gen.get("services", []))
        sc = tuple(op[0] for op in gen.get("script", []))
        out.append((pl, sv, sc))
    return core.digest(out)


def observe(result, run):
    """Record what this execution looked like (evidence: events, interleavings, anchors)."""
    result.count("events_recorded", len(run.events))
    sigs = result.counters.setdefault("interleavings", [])
    sig = run.interleaving_signature()
    if sig not in sigs:
        sigs.append(sig)
    for e in run.of("inject-stats"):
        result.count("inject_line_events", sum(e["hits"].values()))
        anchors = result.counters.setdefault("anchors_reached", [])
        for key in e["hits"]:
            if key not in anchors:
                anchors.append(key)


def harness_trouble(run):
    """Reasons why this execution cannot be judged at all (-> inconclusive, never a violation)."""
    for e in run.of("harness-error"):
        return "harness error in scenario process: %s" % e.get("tb", e.get("exc"))
    for e in run.of("driver-error"):
        if e.get("by") == "main" and "KeyboardInterrupt" in str(e.get("exc")):
            continue  # the main thread of a scenario with the runtime in a thread of its own was interrupted on purpose
        return "driver error: %s" % e.get("exc")
    if not run.events:
        return "scenario process produced no events (exit %s): %s" % (run.exit_code, run.stacks[-800:])
    return None


def watchdog_fired(run):
    return (not run.completed) and ("Timeout (" in run.stacks or run.timed_out)


def thread_stacks(run):
    """faulthandler dump -> list of (header, [frames 'File "...", line N in func'])"""
    threads, cur = [], None
    for line in run.stacks.splitlines():
        if line.startswith("Thread ") or line.startswith("Current thread "):
            cur = (line, [])
            threads.append(cur)
        elif line.startswith("  File") and cur is not None:
            cur[1].append(line.strip())
    return threads


def blocked_in(frames, *names):
    """Do all of `names` occur as function names in this thread's stack?"""
    text = "\n".join(frames)
    return all((" in %s" % n) in text for n in names)


def classify_hang(run):
    """Known hang mechanisms, decided from the watchdog's thread stacks."""
    threads = thread_stacks(run)
    asyncio_side = [f for h, f in threads if blocked_in(f, "register_payload", "from_thread_run")]
    trio_side = [f for h, f in threads if blocked_in(f, "run_payload") and ("_run_trio_blocking" in "\n".join(f) or "trio" in "\n".join(f))]
    if asyncio_side and trio_side:
        if any(blocked_in(f, "_unqueue_payloads") for f in asyncio_side):
            return "startup-unqueue-deadlock"
        return "adopt-trio-blocks-on-busy-trio-thread"
    return None


def run_and_observe(case, result):
    run = run_scenario(case)
    observe(result, run)
    return run


def sample(case, run, **extra):
    """What a case looks like, for the evidence file: scenario outline + the beginning of its event log."""
    gen = case["generations"][-1]
    out = dict(extra)
    out["generations"] = len(case["generations"])
    out["script"] = gen.get("script", [])[:12]
    out["payloads"] = [[p["id"], p["flavour"], p.get("when", "-"), p.get("program", [])[:4], p.get("cleanup", {}).get("kind", "none")]
                       for p in gen.get("payloads", [])[:6]]
    out["services"] = [[s["id"], s["flavour"], s.get("create", "-")] for s in gen.get("services", [])[:4]]
    out["first_events"] = [[e["seq"], e["kind"], e.get("op") or e.get("pid") or "", e.get("by", "")] for e in run.events[:18] if e["kind"] != "inject-stats"]
    out["events_total"] = len(run.events)
    return out
