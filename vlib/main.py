"""Driver:  ./check <Cxx> [--tier quick|thorough] [--replay FILE] [--jobs N]"""
import argparse
import concurrent.futures
import importlib
import json
import os
import subprocess
import sys
import tempfile

from . import core, known

PROPS = {
    "C01": "props.c01_failstop",
    "C02": "props.c02_termination",
    "C03": "props.c03_adopt_once",
    "C04": "props.c04_chain",
    "C05": "props.c05_yaml_pipeline",
    "C06": "props.c06_standardiser",
    "C07": "props.c07_composite",
    "C08": "props.c08_controllers",
    "C09": "props.c09_periodic",
    "C10": "props.c10_execute",
    "C11": "props.c11_no_parallel",
    "C12": "props.c12_lifecycle",
    "C13": "props.c13_daemon",
    "C14": "props.c14_sections",
    "C15": "props.c15_factory",
    "C16": "props.c16_decorators",
    "C17": "props.c17_formats",
    "C18": "props.c18_yaml_safe",
    "C19": "props.c19_translate",
}


def run_worker(pid, spec, timeout):
    """Run one shard in a fresh interpreter; returns (Result | None, diagnostic)."""
    with tempfile.TemporaryDirectory(prefix="cobald-verif-") as tmp:
        spec_file = os.path.join(tmp, "spec.json")
        out_file = os.path.join(tmp, "out.json")
        with open(spec_file, "w") as f:
            json.dump(spec, f)
        try:
            proc = subprocess.run(
                [core.PYTHON, "-m", "vlib.worker", pid, spec_file, out_file],
                cwd=core.VERIF,
                timeout=timeout,
                stdout=subprocess.PIPE,
                stderr=subprocess.STDOUT,
                text=True,
                errors="replace",
            )
        except subprocess.TimeoutExpired as err:
            tail = (err.stdout or b"")[-3000:]
            if isinstance(tail, bytes):
                tail = tail.decode(errors="replace")
            return None, "shard timed out after %ss: %s" % (timeout, tail)
        if proc.returncode != 0 or not os.path.exists(out_file):
            return None, "shard exited %s: %s" % (proc.returncode, proc.stdout[-3000:])
        with open(out_file) as f:
            return core.Result.from_json(json.load(f)), proc.stdout[-2000:]


def main(argv=None):
    ap = argparse.ArgumentParser(prog="check")
    ap.add_argument("property")
    ap.add_argument("--tier", default=None)
    ap.add_argument("--replay", default=None)
    ap.add_argument("--jobs", type=int, default=core.NCPU)
    ap.add_argument("--verbose", action="store_true")
    args = ap.parse_args(argv)
    pid = args.property.upper()
    if pid not in PROPS:
        print("unknown property %s" % pid)
        return 3
    core.import_repo_guard()
    tier, seed = core.tier_and_seed(args.tier)
    mod = importlib.import_module(PROPS[pid])
    watch = core.Stopwatch()
    total = core.Result()

    if args.replay:
        with open(args.replay) as f:
            witness = json.load(f)
        specs = [dict(witness["spec"], only_case=witness.get("case_id"))]
        mode = "replay"
    else:
        specs = mod.plan(tier, seed)
        mode = tier
    timeout = mod.META.get("shard_timeout", {}).get(tier, 900)
    jobs = max(1, min(args.jobs, len(specs), mod.META.get("max_jobs", core.NCPU)))
    with concurrent.futures.ThreadPoolExecutor(max_workers=jobs) as pool:
        futures = {pool.submit(run_worker, pid, spec, timeout): spec for spec in specs}
        for fut in concurrent.futures.as_completed(futures):
            res, diag = fut.result()
            if res is None:
                total.inconc("worker failure: %s" % diag)
                if args.verbose:
                    print(diag)
            else:
                total.merge(res)
                if args.verbose and diag.strip():
                    print(diag)
    if hasattr(mod, "finish") and mode != "replay":
        mod.finish(total, tier)  # whole-run sanity: deciding monitors reached?
    return report(pid, mod, total, tier, seed, watch.s(), mode)


def report(pid, mod, total, tier, seed, wall_s, mode):
    kf = known.load()
    new, old = [], {}
    for v in total.violations:
        entry = kf.open_entry(pid, v.get("mechanism"))
        if entry is not None:
            old.setdefault(entry["key"], []).append(v)
        else:
            new.append(v)
    os.makedirs(os.path.join(core.VERIF, "replays"), exist_ok=True)
    os.makedirs(os.path.join(core.VERIF, "evidence"), exist_ok=True)
    for key, items in sorted(old.items()):
        print(
            "KNOWN-FINDING: property=%s %s (%d occurrence(s) this run) -- %s"
            % (pid, key, total.counters.get("mechanism:" + key, len(items)), kf.entries[key]["what"])
        )
    replay_paths = []
    for i, v in enumerate(new[:10]):
        path = os.path.join("replays", "%s-%s-%d.json" % (pid, core.digest(v)[:8], i))
        with open(os.path.join(core.VERIF, path), "w") as f:
            json.dump(v, f, indent=1, sort_keys=True)
        replay_paths.append(path)
        print("VIOLATION property=%s replay=%s" % (pid, path))
        print("  what: %s" % str(v.get("what"))[:600])
    n_known = sum(
        n for key, n in total.counters.items()
        if key.startswith("mechanism:") and kf.open_entry(pid, key[len("mechanism:"):]) is not None
    )
    n_new = total.n_violations - n_known
    if mode != "replay":
        coverage = {
            "evaluations": total.evaluations,
            "distinct_nontrivial": len(total.distinct),
            "rule": mod.META["rule"],
            "samples": total.samples,
            "observed": {
                k: (v if not isinstance(v, list) or len(v) <= 40 or k.startswith("reached:") else {"distinct": len(v), "sample": v[:8]})
                for k, v in total.counters.items()
            },
            "known_findings_seen": {k: len(v) for k, v in old.items()},
            "inconclusive": total.inconclusive,
        }
        evidence = {
            "property_id": pid,
            "tier": tier,
            "seed": seed,
            "level": mod.META["level"],
            "coverage": coverage,
            "assumptions": mod.META.get("assumptions", []),
            "wall_s": wall_s,
            "violations": max(n_new, len(new)),
        }
        with open(os.path.join(core.VERIF, "evidence", pid + ".json"), "w") as f:
            json.dump(evidence, f, indent=1, sort_keys=True)
    summary = "%s %s seed=%s: %d cases (%d distinct non-trivial), %.1fs" % (
        pid,
        mode,
        seed,
        total.evaluations,
        len(total.distinct),
        wall_s,
    )
    if new:
        print(summary + " -> %d VIOLATION(S)" % max(n_new, len(new)))
        return 1
    if total.inconclusive:
        for reason in total.inconclusive:
            print("INCONCLUSIVE property=%s reason=%s" % (pid, reason[:1500]))
        print(summary + " -> INCONCLUSIVE")
        return 2
    if mode != "replay" and (total.evaluations < 1 or len(total.distinct) < 2):
        print("INCONCLUSIVE property=%s reason=nothing observed" % pid)
        return 2
    if mode == "replay":
        if old:
            print(summary + " -> the recorded case reproduced only the known finding(s) listed above")
        else:
            print(summary + " -> the recorded case did not violate the property in this run")
        return 0
    interesting = {k: v for k, v in total.counters.items() if isinstance(v, int)}
    print(summary + " -> held; observed: " + json.dumps(interesting, sort_keys=True))
    return 0


if __name__ == "__main__":
    sys.exit(main())
