"""Shared machinery: seeds, case ids, shard runner, evidence writer, verdict reporting.

Every property module in ``props/`` exposes

    META   : dict(level=..., rule=..., assumptions=[...], engine=...)
    plan(tier, seed)        -> list of JSON-able shard specs
    run_shard(spec)         -> Result (see below), executed in a worker process
    replay(witness)         -> Result (optional; default re-runs the witness' shard spec
                               restricted to the witness' case)

The driver (vlib/main.py) runs the shards in worker processes (subprocess.run with a
timeout each, never multiprocessing.Pool), merges the results, classifies violations
against known_findings.json, writes evidence/<id>.json and prints the verdict lines.
"""
import hashlib
import json
import os
import random
import sys
import time

VERIF = os.path.dirname(os.path.dirname(os.path.abspath(__file__)))
REPO = os.environ.get("VERIF_REPO", "/repo")
PYTHON = "/venv/bin/python"
NCPU = min(16, os.cpu_count() or 1)


def rng(*parts):
    """A PRNG whose state is a pure function of its name parts (replayable)."""
    return random.Random("/".join(str(p) for p in parts))


def digest(obj) -> str:
    try:
        text = json.dumps(obj, sort_keys=True, default=repr)
    except TypeError:  # e.g. mappings with keys of mixed types
        text = json.dumps(jsonable(obj), sort_keys=True, default=repr)
    return hashlib.sha1(text.encode()).hexdigest()[:16]


def jsonable(obj, depth=0):
    """Best-effort conversion of a witness into JSON-able data."""
    if depth > 12:
        return repr(obj)
    if obj is None or isinstance(obj, (bool, int, str)):
        return obj
    if isinstance(obj, float):
        if obj != obj or obj in (float("inf"), float("-inf")):
            return repr(obj)
        return obj
    if isinstance(obj, dict):
        return {str(k): jsonable(v, depth + 1) for k, v in obj.items()}
    if isinstance(obj, (list, tuple, set, frozenset)):
        return [jsonable(v, depth + 1) for v in obj]
    return repr(obj)


class Result:
    """What one shard (or a whole check) observed."""

    MAX_SAMPLES = 4
    MAX_VIOLATIONS = 25

    def __init__(self):
        self.evaluations = 0
        self.distinct = set()  # digests of distinct non-trivial cases
        self.samples = []
        self.violations = []  # list of witness dicts (each with 'what', 'mechanism', 'case')
        self.counters = {}  # name -> int  (what the monitors saw)
        self.inconclusive = []  # reasons
        self.n_violations = 0

    # -- recording ---------------------------------------------------------------
    def case(self, case, nontrivial=True, key=None):
        """Count one explored case; `key` (default: the case itself) decides distinctness."""
        self.evaluations += 1
        if nontrivial:
            self.distinct.add(digest(case if key is None else key))
        if len(self.samples) < self.MAX_SAMPLES:
            self.samples.append(jsonable(case))

    def count(self, name, n=1):
        self.counters[name] = self.counters.get(name, 0) + n

    def violation(self, what, case, mechanism=None, **extra):
        self.n_violations += 1
        key = "mechanism:%s" % mechanism
        self.counters[key] = self.counters.get(key, 0) + 1
        # the cap is per mechanism, so a flood of one (known) kind cannot hide another
        if self.counters[key] <= self.MAX_VIOLATIONS:
            w = {"what": what, "mechanism": mechanism, "case": jsonable(case)}
            w.update({k: jsonable(v) for k, v in extra.items()})
            self.violations.append(w)

    def inconc(self, reason):
        if reason not in self.inconclusive:
            self.inconclusive.append(reason)

    # -- (de)serialisation and merging ------------------------------------------
    def to_json(self):
        return {
            "evaluations": self.evaluations,
            "distinct": sorted(self.distinct),
            "samples": self.samples,
            "violations": self.violations,
            "n_violations": self.n_violations,
            "counters": self.counters,
            "inconclusive": self.inconclusive,
        }

    @classmethod
    def from_json(cls, data):
        r = cls()
        r.evaluations = data["evaluations"]
        r.distinct = set(data["distinct"])
        r.samples = data["samples"]
        r.violations = data["violations"]
        r.n_violations = data.get("n_violations", len(r.violations))
        r.counters = data["counters"]
        r.inconclusive = data["inconclusive"]
        return r

    def merge(self, other):
        self.evaluations += other.evaluations
        self.distinct |= other.distinct
        for s in other.samples:
            if len(self.samples) < self.MAX_SAMPLES:
                self.samples.append(s)
        self.n_violations += other.n_violations
        self.violations.extend(other.violations)
        for k, v in other.counters.items():
            if isinstance(v, (int, float)):
                self.counters[k] = self.counters.get(k, 0) + v
            else:  # lists of distinct things -> union
                cur = set(self.counters.get(k, []))
                self.counters[k] = sorted(cur | set(v))
        for reason in other.inconclusive:
            self.inconc(reason)


def tier_and_seed(argv_tier=None):
    tier = argv_tier or os.environ.get("VERIF_TIER") or "quick"
    if tier not in ("quick", "thorough"):
        tier = "quick"
    try:
        seed = int(os.environ.get("VERIF_SEED", "0"))
    except ValueError:
        seed = 0
    return tier, seed


class Stopwatch:
    def __init__(self):
        self.t0 = time.monotonic()

    def s(self):
        return round(time.monotonic() - self.t0, 3)


def import_repo_guard():
    """Make sure `cobald` is imported from the tree under test, not from elsewhere."""
    import cobald.interfaces

    where = os.path.realpath(os.path.dirname(os.path.dirname(cobald.interfaces.__file__)))
    want = os.path.realpath(os.path.join(REPO, "src", "cobald"))
    if where != want:
        print("INTERNAL: cobald imported from %s, expected %s" % (where, want))
        sys.exit(3)


def drive(pid, spec, gen, execute, result, key=None, nontrivial=None, stall=None):
    """Generate and execute spec['n'] cases of one shard.

    gen(rnd, spec) -> JSON-able case;  execute(case, result) -> iterable of
    (what, mechanism) problems found by the oracle.  The witness of a violation carries
    the shard spec and the case index, so `./check Cxx --replay FILE` regenerates exactly
    that case (generation is a pure function of (property, seed, shard, index)).
    """
    only = spec.get("only_case")
    for i in range(spec["n"]):
        if only is not None and i != only:
            continue
        rnd = rng(pid, spec["seed"], spec["shard"], i)
        case = gen(rnd, dict(spec, case_index=i))
        if stall is None:
            problems = list(execute(case, result) or ())
        else:
            # sequential code that must simply return: run the case in a thread of its own, so that a call that never
            # returns (a lock taken twice, a wait for nobody) is a witness instead of a hung check. `stall` is a generous
            # wall-clock watchdog (cases take milliseconds); the rest of the shard is given up after the first stall
            import threading

            box = {}

            def run_case():
                try:
                    box["problems"] = list(execute(case, result) or ())
                except BaseException as err:  # noqa: B036
                    box["error"] = err

            worker = threading.Thread(target=run_case, daemon=True)
            worker.start()
            worker.join(stall)
            if worker.is_alive():
                import sys
                import traceback

                frame = sys._current_frames().get(worker.ident)
                where = "".join(traceback.format_stack(frame)[-6:]) if frame else ""
                result.case(case, nontrivial=True, key=None if key is None else key(case))
                clean = {k: v for k, v in spec.items() if k != "only_case"}
                result.violation("the case did not return within %d s: a call never came back\n%s" % (stall, where), case, None, spec=clean, case_id=i)
                break
            if "error" in box:
                raise box["error"]
            problems = box["problems"]
        result.case(
            case,
            nontrivial=True if nontrivial is None else nontrivial(case),
            key=None if key is None else key(case),
        )
        for what, mechanism in problems:
            clean = {k: v for k, v in spec.items() if k != "only_case"}
            result.violation(what, case, mechanism, spec=clean, case_id=i)


def shards(seed, total, n_shards, **extra):
    """Split `total` cases over `n_shards` shard specs."""
    n_shards = max(1, min(n_shards, total))
    per = (total + n_shards - 1) // n_shards
    return [dict(seed=seed, shard=i, n=per, **extra) for i in range(n_shards)]
