"""known_findings.json: genuine defects that are recorded (open) or repaired (fixed).

Keys name a *mechanism* (never a seed, hash or random value).  Only ``open`` entries
suppress a violation, and only one whose classifier produced exactly that key.  The file
is never written at run time.
"""
import json
import os

from . import core


class Known:
    def __init__(self, entries):
        self.entries = {e["key"]: e for e in entries}

    def open_entry(self, pid, mechanism):
        if not mechanism:
            return None
        entry = self.entries.get(mechanism)
        if entry and entry["property"] == pid and entry["status"] == "open":
            return entry
        return None


def load():
    path = os.path.join(core.VERIF, "known_findings.json")
    with open(path) as f:
        return Known(json.load(f)["findings"])
