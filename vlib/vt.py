"""E2 - virtual-time engine: run real service coroutines under trio's MockClock.

The service's real ``run()`` coroutine runs in a nursery next to an environment task that
performs a timed script.  ``MockClock(autojump_threshold=0)`` jumps whenever all tasks are
blocked, so thousands of virtual seconds cost microseconds and the run is deterministic.
"""
import trio
import trio.testing


class Outcome:
    def __init__(self):
        self.errors = []  # (service index, exception) for every run() that ended by raising
        self.returned = []  # (service index, value, time) for every run() that returned
        self.alive_at_end = []  # indices of services still running when cancelled


def run_virtual(services, script, until, start=0.0):
    """Run `services` (objects with async run()) from virtual time `start` until `until`.

    script: list of (time, callable) - callables run in the environment task at exactly
    that virtual time (order at equal times = list order).  Returns an Outcome.
    """
    out = Outcome()
    done = set()

    async def guarded(i, svc):
        try:
            value = await svc.run()
        except trio.Cancelled:
            raise
        except BaseException as err:  # noqa: B036 - recorded, judged by the oracle
            out.errors.append((i, err))
            done.add(i)
        else:
            out.returned.append((i, value, trio.current_time()))
            done.add(i)

    async def main():
        if start:
            await trio.sleep_until(start)
        async with trio.open_nursery() as nursery:
            for i, svc in enumerate(services):
                nursery.start_soon(guarded, i, svc)
            for when, action in sorted(script, key=lambda item: item[0]):
                await trio.sleep_until(when)
                action()
            await trio.sleep_until(until)
            out.alive_at_end = [i for i in range(len(services)) if i not in done]
            nursery.cancel_scope.cancel()

    clock = trio.testing.MockClock(autojump_threshold=0)
    trio.run(main, clock=clock)
    return out


def now():
    return trio.current_time()


def clock():
    """Virtual time, or None outside a trio run (e.g. while objects are being constructed)."""
    try:
        return trio.current_time()
    except RuntimeError:
        return None
