"""Global call log of the generated-configuration factories (plugins/vfact)."""
LOG = []


class Product:
    def __init__(self, name):
        self.name = name

    def __repr__(self):
        return "<Product of %s>" % self.name


def call(name, args, kwargs, product=None):
    import sys

    if product is None:
        product = Product(name)
    # is the caller still what its module's name stands for, or a left-over of a module that was loaded anew since?
    scope = sys._getframe(1).f_globals
    current = sys.modules.get(scope.get("__name__"))
    stale = current is None or vars(current) is not scope
    LOG.append({"name": name, "args": args, "kwargs": kwargs, "product": product, "seq": len(LOG), "stale": stale})
    return product


def reset():
    del LOG[:]
