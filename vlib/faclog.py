"""Global call log of the generated-configuration factories (plugins/vfact)."""
LOG = []


class Product:
    def __init__(self, name):
        self.name = name

    def __repr__(self):
        return "<Product of %s>" % self.name


def call(name, args, kwargs, product=None):
    if product is None:
        product = Product(name)
    LOG.append({"name": name, "args": args, "kwargs": kwargs, "product": product, "seq": len(LOG)})
    return product


def reset():
    del LOG[:]
