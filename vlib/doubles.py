"""Recording test doubles shared by the sequential (E2/E3) checks."""
from cobald.interfaces import Pool


class Runaway(RuntimeError):
    """Raised by a recording pool whose access cap is exceeded."""


class RecPool(Pool):
    """A pool whose four properties are plain settable values; every access is logged.

    ``log`` entries: ("r", attr, value) / ("w", "demand", value); ``clock`` (optional
    callable) adds a timestamp as 4th element.  State only changes through explicit
    writes - never as a side effect of another property.
    """

    def __init__(self, demand=0, supply=0, utilisation=1.0, allocation=1.0, clock=None):
        self._demand = demand
        self._supply = supply
        self._utilisation = utilisation
        self._allocation = allocation
        self.log = []
        self.max_log = None  # a cap on the number of accesses: a service that spins without the clock advancing is stopped
        self.clock = clock
        self.writes = 0
        self.on_write = None
        self.refuse_next = None  # an exception: the next demand write is refused with it and changes nothing

    def _rec(self, kind, attr, value):
        if self.max_log is not None and len(self.log) >= self.max_log:
            raise Runaway("the pool was accessed %d times: the service is spinning" % len(self.log))
        if self.clock is not None:
            self.log.append((kind, attr, value, self.clock()))
        else:
            self.log.append((kind, attr, value))

    @property
    def supply(self):
        self._rec("r", "supply", self._supply)
        return self._supply

    @property
    def demand(self):
        self._rec("r", "demand", self._demand)
        return self._demand

    @demand.setter
    def demand(self, value):
        if self.refuse_next is not None:
            refusal, self.refuse_next = self.refuse_next, None
            raise refusal
        self._rec("w", "demand", value)
        self.writes += 1
        self._demand = value
        if self.on_write is not None:
            self.on_write(self, value)

    @property
    def utilisation(self):
        self._rec("r", "utilisation", self._utilisation)
        return self._utilisation

    @property
    def allocation(self):
        self._rec("r", "allocation", self._allocation)
        return self._allocation

    # direct (unlogged) access for the environment / oracle
    def peek(self):
        return {
            "demand": self._demand,
            "supply": self._supply,
            "utilisation": self._utilisation,
            "allocation": self._allocation,
        }

    def poke(self, **values):
        for key, value in values.items():
            setattr(self, "_" + key, value)


def num(x):
    """JSON-friendly rendering of ints/floats incl. infinities."""
    if isinstance(x, float) and (x in (float("inf"), float("-inf")) or x != x):
        return repr(x)
    return x


def unnum(x):
    if isinstance(x, str):
        return float(x)
    return x
