"""E4 - process-level engine: run `python -m cobald.daemon <config>` as a child process.

The child gets PYTHONPATH = <repo>/src : /verif : /verif/plugins, so the harness plugins are
found through their dist-info entry points exactly like a third-party package, and
VERIF_EVENT_FILE, to which the instrumented plugin classes append JSON lines (constructed -
with or without a running asyncio loop -, run started, heartbeat n, cancelled, failing).
"""
import json
import os
import signal
import subprocess
import tempfile
import time

from . import core


class DaemonRun:
    def __init__(self):
        self.events = []
        self.exit_code = None
        self.stderr = ""
        self.timed_out = False
        self.signalled_at = None
        self.duration = None

    def of(self, kind, label=None):
        return [e for e in self.events if e["kind"] == kind and (label is None or e.get("label") == label)]


def read_events(path):
    events = []
    try:
        with open(path) as f:
            for line in f:
                try:
                    events.append(json.loads(line))
                except ValueError:
                    pass
    except FileNotFoundError:
        pass
    return events


def run_daemon(config_text, suffix, ready, signal_after=None, timeout=25.0, args=(), wait_ready=8.0, config_name=None, inject=None, compiled=False):
    """Start the daemon on a generated configuration.

    ready(events) -> bool decides when the services are considered up; then, after
    `signal_after` more seconds, SIGINT is sent (signal_after=None: never signal, just wait
    for the daemon to end by itself).
    """
    run = DaemonRun()
    with tempfile.TemporaryDirectory(prefix="cobald-verif-daemon-") as tmp:
        # the configuration lives in a directory of its own that is neither the working directory nor on sys.path
        os.mkdir(os.path.join(tmp, "etc"))
        os.mkdir(os.path.join(tmp, "cwd"))
        cfg = os.path.join(tmp, "etc", (config_name or "config") + suffix)
        if config_text is not None:
            with open(cfg, "w") as f:
                f.write(config_text)
            if compiled:
                # the file holds the byte-compiled form of the text
                source = os.path.join(tmp, "source_of_config.py")
                os.rename(cfg, source)
                subprocess.run([core.PYTHON, "-c", "import py_compile, sys; py_compile.compile(sys.argv[1], cfile=sys.argv[2], doraise=True)", source, cfg],
                               check=True, timeout=60)
                os.unlink(source)
        evfile = os.path.join(tmp, "events.jsonl")
        errfile = os.path.join(tmp, "stderr.txt")
        env = dict(os.environ, VERIF_EVENT_FILE=evfile, PYTHONUNBUFFERED="1")
        if inject:
            env["VERIF_DAEMON_INJECT"] = json.dumps(inject)
        t0 = time.monotonic()
        with open(errfile, "w") as err:
            proc = subprocess.Popen([core.PYTHON, "-m", "cobald.daemon", cfg, *args], env=env, stdout=subprocess.DEVNULL, stderr=err, cwd=os.path.join(tmp, "cwd"))
            try:
                if signal_after is not None:
                    deadline = time.monotonic() + wait_ready
                    up = False
                    while time.monotonic() < deadline and proc.poll() is None:
                        if ready(read_events(evfile)):
                            up = True
                            break
                        time.sleep(0.03)
                    run.ready = up
                    if proc.poll() is None:
                        time.sleep(signal_after if up else 0)
                        run.signalled_at = time.monotonic() - t0
                        run.events_at_signal = len(read_events(evfile))
                        proc.send_signal(signal.SIGINT)
                try:
                    proc.wait(timeout=timeout)
                except subprocess.TimeoutExpired:
                    run.timed_out = True
                    proc.kill()
                    proc.wait()
            finally:
                if proc.poll() is None:
                    proc.kill()
                    proc.wait()
        run.duration = time.monotonic() - t0
        run.exit_code = proc.returncode
        run.events = read_events(evfile)
        with open(errfile, errors="replace") as f:
            run.stderr = f.read()
    return run
