"""Anchor reach probe: which statement lines of the anchored repository files executed.

Uses sys.monitoring LINE events with DISABLE after the first hit of each location, so the
cost is one callback per distinct line per process.  The result goes into the evidence
("reached:<file>" -> sorted line numbers) so that a reader sees that e.g. all three branches
of the clamp or the zero-weight fallback were actually driven, and a check can declare
itself inconclusive when its deciding branch was never reached.
"""
import os
import sys

from . import core

TOOL = 3


class LineProbe:
    def __init__(self, *relative_files):
        self.files = {
            os.path.realpath(os.path.join(core.REPO, "src", "cobald", rel)): rel
            for rel in relative_files
        }
        self.hits = {rel: set() for rel in relative_files}
        self.active = False

    def _line(self, code, line):
        rel = self.files.get(code.co_filename)
        if rel is None:
            rel = self.files.get(os.path.realpath(code.co_filename))
        if rel is not None:
            self.hits[rel].add(line)
        return sys.monitoring.DISABLE

    def start(self):
        mon = sys.monitoring
        try:
            mon.use_tool_id(TOOL, "cobald-verif-probe")
        except ValueError:
            return self  # already in use: probe stays inactive, never fatal
        mon.register_callback(TOOL, mon.events.LINE, self._line)
        mon.set_events(TOOL, mon.events.LINE)
        self.active = True
        return self

    def stop(self):
        if self.active:
            mon = sys.monitoring
            mon.set_events(TOOL, 0)
            mon.register_callback(TOOL, mon.events.LINE, None)
            mon.free_tool_id(TOOL)
            self.active = False

    def record(self, result):
        for rel, lines in self.hits.items():
            result.counters["reached:" + rel] = sorted(lines)

    def reached(self, rel, line):
        return line in self.hits.get(rel, ())
