"""Worker process:  python -m vlib.worker <Cxx> <spec.json> <out.json>"""
import importlib
import json
import sys

from . import core
from .main import PROPS


def main():
    pid, spec_file, out_file = sys.argv[1:4]
    core.import_repo_guard()
    with open(spec_file) as f:
        spec = json.load(f)
    mod = importlib.import_module(PROPS[pid])
    result = mod.run_shard(spec)
    with open(out_file + ".tmp", "w") as f:
        json.dump(result.to_json(), f)
    import os

    os.replace(out_file + ".tmp", out_file)


if __name__ == "__main__":
    main()
