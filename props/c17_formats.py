"""C17 - monitoring output is well-formed and lossless.

Monitor: every generated record is formatted by the real formatter and decoded again by an
independent reference parser of the InfluxDB line protocol (written from the protocol
reference, sharing no code with the formatter) / by json.loads, and compared with the input.
"""
import json
import logging
import math

from vlib import core, probe

PID = "C17"

META = {
    "level": "exploration",
    "engine": "E3 reference model (independent line-protocol parser / json.loads round trip)",
    "rule": (
        "seeded random log records: measurement names, tag/field keys and string values over an "
        "alphabet containing space, comma, equals, double and single quote, backslash, non-ASCII "
        "and emoji; int/float/bool fields; whitelist given as set/list/dict of defaults with "
        "str and non-str default and record tag values (numbers, booleans, and tuples / lists / dicts / ranges whose text needs escaping); integer resolutions 1..10^4 or none; "
        "sequences of 1-4 records through the same formatter instance; JSON: nested payloads, a fifth of them with object keys that are not strings (int, float, bool, null: e.g. a histogram), "
        "defaults, time enabled/disabled/custom format. Non-trivial = at least one special "
        "character or a tag or a timestamp is involved; distinct by content."
    ),
    "assumptions": [
        "excluded as inexpressible: line breaks, a trailing backslash in name/keys/tag values, '%' in the name, "
        "empty names/keys/tag values, keys equal to LogRecord attribute names, non-finite floats, |int| >= 2^53, times >= 2^32 s",
        "a Python int field printed without the 'i' suffix is accepted as a numerically equal number (documented format)",
        "backslash in names/keys/tag values escapes only when followed by comma, equals or space (protocol reference)",
    ],
    "shard_timeout": {"quick": 300, "thorough": 1500},
}

RECORD_ATTRS = {
    "args", "asctime", "created", "exc_info", "exc_text", "filename", "funcName", "levelname",
    "levelno", "lineno", "message", "module", "msecs", "msg", "name", "pathname", "process",
    "processName", "relativeCreated", "stack_info", "thread", "threadName", "taskName",
}


def plan(tier, seed):
    n = 150000 if tier == "thorough" else 6000
    k = 8 if tier == "thorough" else 4
    a = core.shards(seed, n, k, kind="line")
    b = core.shards(seed, n // 2, k, kind="json")
    for s in a + b:
        s["shard"] = "%s-%s" % (s["kind"], s["shard"])
    return a + b


# ------------------------------------------------------------------------------ generators
SPECIAL = [" ", ",", "=", '"', "'", "\\", "é", "ß", "🚀", "⚡", "#", ":", "/", "\t", "i", "t"]
PLAIN = list("abcxyz019_-.")


def gen_text(rnd, lo=1, hi=10, special_p=0.35, role="key"):
    n = rnd.randint(lo, hi)
    chars = [rnd.choice(SPECIAL) if rnd.random() < special_p else rnd.choice(PLAIN) for _ in range(n)]
    s = "".join(chars)
    if role in ("key", "name", "tagvalue"):
        while s.endswith("\\"):
            s = s[:-1] + rnd.choice(PLAIN)
        if not s:
            s = rnd.choice(PLAIN)
    if role == "name":
        s = s.replace("%", "p")
        if s.startswith("#"):
            s = "m" + s
    return s


# ordinary words a report may well use as a key - and that helpers of a formatter may use as parameter names
WORD_KEYS = ["timestamp", "tags", "fields", "self", "time", "resolution", "record", "fmt", "key", "value", "data", "measurement",
             "format", "kwargs", "style", "cls", "sep", "end", "file", "default", "defaults", "datefmt", "validate"]


def gen_key(rnd, taken):
    while True:
        k = rnd.choice(WORD_KEYS) if rnd.random() < 0.12 else gen_text(rnd, 1, 8, rnd.choice([0.0, 0.2, 0.5]), "key")
        if k not in RECORD_ATTRS and k not in taken:
            taken.add(k)
            return k


def gen_field_value(rnd):
    k = rnd.random()
    if k < 0.4:
        return gen_text(rnd, 0, 12, rnd.choice([0.0, 0.3, 0.7]), "fieldvalue")
    if k < 0.55:
        return rnd.choice([0, 1, -1, 298, rnd.randint(-(2**53) + 1, 2**53 - 1), rnd.randint(-1000, 1000)])
    if k < 0.75:
        return rnd.choice([0.0, 0.45, -1.5, 1e-07, 1e22, 1.7976931348623157e308, 5e-324, rnd.random(), rnd.uniform(-1e6, 1e6), 1e16])
    if k < 0.85:
        return rnd.choice([True, False])
    return rnd.choice(['"', "'", "\\", '\\"', "it's", 'a"b\\', "\\\\", '","x=1', "x=1,y=2 3", "", " "])


def gen_tag_value(rnd):
    k = rnd.random()
    if k < 0.7:
        return gen_text(rnd, 1, 8, rnd.choice([0.0, 0.3, 0.6]), "tagvalue")
    if k < 0.9:
        return rnd.choice([49, 8, 0.5, True, False, -3, 10**6])
    # values whose text form needs escaping although they are not strings
    return rnd.choice([(1, 2), [1, "a b"], {"k": 1}, range(3), ("x=1",), [0.5, None], {"a b": [1, 2]}])


def gen_line_case(rnd, spec):
    taken = set()
    keys = [gen_key(rnd, taken) for _ in range(rnd.randint(0, 6))]
    mode = rnd.choice(["none", "set", "list", "dict", "dict"])
    whitelist = [k for k in keys if rnd.random() < 0.4]
    extra_tags = [gen_key(rnd, taken) for _ in range(rnd.randint(0, 2))]  # whitelisted / defaulted, maybe absent from records
    tags = None
    if mode in ("set", "list"):
        tags = {"kind": mode, "keys": whitelist + extra_tags}
    elif mode == "dict":
        tags = {"kind": "dict", "items": [[k, gen_tag_value(rnd)] for k in whitelist + extra_tags],
                # the defaults may be any mapping, not just a dict
                "as": rnd.choice(["dict", "dict", "proxy", "userdict", "chainmap", "ordered"])}
    resolution = rnd.choice([None, None, 1, 10, 60, 100, 3600, rnd.randint(1, 10**4)])
    records = []
    for _ in range(rnd.randint(1, 4)):
        payload = []
        for k in keys + extra_tags:
            if rnd.random() < 0.8:
                in_wl = tags is not None and (k in whitelist or k in extra_tags)
                payload.append([k, gen_tag_value(rnd) if in_wl else gen_field_value(rnd)])
        rnd.shuffle(payload)
        records.append({
            "name": gen_text(rnd, 1, 12, rnd.choice([0.0, 0.3, 0.6]), "name"),
            "payload": payload,
            "created": rnd.choice([0.0, 1.5, 1234567.891, float(rnd.randint(0, 2**32 - 1)), rnd.uniform(0, 2**32 - 1), 1700000000.123456, 4294967295.999]),
        })
    return {"kind": "line", "tags": tags, "resolution": resolution, "records": records}


# ------------------------------------------------------------------------------ reference parser
class ParseError(Exception):
    pass


def parse_line(text):
    """Decode one line of InfluxDB line protocol -> (measurement, tags, fields, timestamp)."""
    if not text.endswith("\n"):
        raise ParseError("not newline-terminated")
    line = text[:-1]
    if "\n" in line or "\r" in line:
        raise ParseError("more than one line")
    pos = 0
    n = len(line)

    def scan(stops, escapable):
        nonlocal pos
        out = []
        while pos < n:
            c = line[pos]
            if c == "\\" and pos + 1 < n and line[pos + 1] in escapable:
                out.append(line[pos + 1])
                pos += 2
                continue
            if c in stops:
                break
            out.append(c)
            pos += 1
        return "".join(out)

    measurement = scan(", ", ", ")
    if not measurement:
        raise ParseError("empty measurement")
    tags = {}
    while pos < n and line[pos] == ",":
        pos += 1
        key = scan("=", ",= ")
        if pos >= n or line[pos] != "=":
            raise ParseError("tag without '=' at %d" % pos)
        pos += 1
        value = scan(", ", ",= ")
        if not key or not value:
            raise ParseError("empty tag key or value at %d" % pos)
        if key in tags:
            raise ParseError("duplicate tag %r" % key)
        tags[key] = value
    if pos >= n or line[pos] != " ":
        raise ParseError("missing field set separator at %d" % pos)
    pos += 1
    fields = {}
    while pos < n and line[pos] != " ":
        key = scan("=", ",= ")
        if pos >= n or line[pos] != "=" or not key:
            raise ParseError("field without '=' at %d" % pos)
        pos += 1
        if pos < n and line[pos] == '"':
            pos += 1
            out = []
            while True:
                if pos >= n:
                    raise ParseError("unterminated string field")
                c = line[pos]
                if c == "\\" and pos + 1 < n and line[pos + 1] in '"\\':
                    out.append(line[pos + 1])
                    pos += 2
                    continue
                if c == '"':
                    pos += 1
                    break
                out.append(c)
                pos += 1
            value = "".join(out)
        else:
            raw = scan(", ", "")
            if raw in ("t", "T", "true", "True", "TRUE"):
                value = True
            elif raw in ("f", "F", "false", "False", "FALSE"):
                value = False
            elif raw.endswith("i") and raw[:-1].lstrip("+-").isdigit():
                value = ("int", int(raw[:-1]))
            else:
                try:
                    value = ("num", float(raw))
                except ValueError:
                    raise ParseError("unparsable field value %r" % raw) from None
                if not set(raw) <= set("0123456789+-.eE"):
                    raise ParseError("unparsable field value %r" % raw)
        if key in fields:
            raise ParseError("duplicate field %r" % key)
        fields[key] = value
        if pos < n and line[pos] == ",":
            pos += 1
            if pos >= n or line[pos] == " ":
                raise ParseError("dangling comma in field set")
            continue
        if pos < n and line[pos] != " ":
            raise ParseError("garbage after field value at %d: %r" % (pos, line[pos:pos + 10]))
    timestamp = None
    if pos < n:
        pos += 1
        raw = line[pos:]
        if not raw.lstrip("-").isdigit():
            raise ParseError("bad timestamp %r" % raw)
        timestamp = int(raw)
    return measurement, tags, fields, timestamp


def field_matches(expected, got):
    if isinstance(expected, bool):
        return got is expected
    if isinstance(expected, str):
        return isinstance(got, str) and got == expected
    if isinstance(got, tuple):
        return got[1] == expected
    return False


def exec_line(case, result):
    from cobald.monitor.format_line import LineProtocolFormatter

    t = case["tags"]
    if t is None:
        tags_arg, defaults, whitelist = None, {}, set()
    elif t["kind"] == "dict":
        tags_arg = {k: v for k, v in t["items"]}
        defaults, whitelist = dict(tags_arg), set(tags_arg)
        how = t.get("as", "dict")
        if how != "dict":
            import collections
            import types

            tags_arg = {"proxy": types.MappingProxyType, "userdict": collections.UserDict, "ordered": collections.OrderedDict,
                        "chainmap": lambda d: collections.ChainMap({}, d)}[how](tags_arg)
            result.count("line_formatters_with_non_dict_mapping_defaults")
    else:
        tags_arg = set(t["keys"]) if t["kind"] == "set" else list(t["keys"])
        defaults, whitelist = {}, set(t["keys"])
    try:
        fmt = LineProtocolFormatter(tags_arg, case["resolution"])
    except Exception as err:
        return [("constructing the formatter raised %r" % (err,), None)]
    problems = []
    for idx, rec in enumerate(case["records"]):
        payload = {k: v for k, v in rec["payload"]}
        record = logging.LogRecord("cobald.monitor", logging.INFO, __file__, 1, rec["name"], (payload,), None)
        record.created = rec["created"]
        try:
            out = fmt.format(record)
        except Exception as err:
            problems.append(("record %d: format raised %r" % (idx, err), None))
            continue
        result.count("line_records")
        try:
            name, tags, fields, ts = parse_line(out)
        except ParseError as err:
            problems.append(("record %d: output %r is not a well-formed line: %s" % (idx, out, err), None))
            continue
        want_tags = {k: str(v) for k, v in defaults.items()}
        want_tags.update({k: str(v) for k, v in payload.items() if k in whitelist})
        want_fields = {k: v for k, v in payload.items() if k not in whitelist}
        if case["resolution"] is None:
            want_ts = None
        else:
            want_ts = (math.floor(rec["created"]) // case["resolution"]) * case["resolution"] * 10**9
        if name != rec["name"]:
            problems.append(("record %d: measurement decodes to %r, reported %r (line %r)" % (idx, name, rec["name"], out), None))
        if tags != want_tags:
            problems.append(("record %d: tags decode to %r, expected %r (line %r)" % (idx, tags, want_tags, out), None))
        if set(fields) != set(want_fields):
            problems.append(("record %d: field keys decode to %r, expected %r (line %r)" % (idx, sorted(fields), sorted(want_fields), out), None))
        else:
            for k, v in want_fields.items():
                if not field_matches(v, fields[k]):
                    problems.append(("record %d: field %r decodes to %r, reported %r (line %r)" % (idx, k, fields[k], v, out), None))
                    break
        if ts != want_ts:
            problems.append(("record %d: timestamp %r, expected %r (created %r, resolution %r)" % (idx, ts, want_ts, rec["created"], case["resolution"]), None))
        if want_tags:
            result.count("line_records_with_tags")
        if any(not isinstance(v, (str, int, float)) for v in list(defaults.values()) + [v for k, v in payload.items() if k in whitelist]):
            result.count("line_records_with_container_tag_values")
        if any(c in rec["name"] + "".join(payload) + "".join(v for v in payload.values() if isinstance(v, str)) for c in ' ,="\'\\'):
            result.count("line_records_with_special_chars")
        if want_ts is not None:
            result.count("line_records_with_timestamp")
    return problems


# ------------------------------------------------------------------------------ JSON
def gen_json_value(rnd, depth=0):
    k = rnd.random()
    if depth < 3 and k < 0.15:
        return [gen_json_value(rnd, depth + 1) for _ in range(rnd.randint(0, 3))]
    if depth < 3 and k < 0.3:
        return {gen_text(rnd, 0, 5, 0.3, "fieldvalue"): gen_json_value(rnd, depth + 1) for _ in range(rnd.randint(0, 3))}
    if k < 0.55:
        return gen_text(rnd, 0, 10, 0.4, "fieldvalue")
    if k < 0.7:
        return rnd.randint(-10**9, 10**9)
    if k < 0.85:
        return rnd.choice([0.0, 0.45, -1.5, 1e-07, 1e22, rnd.random()])
    return rnd.choice([True, False, None])


NONSTRING_KEYS = [7, 1000, -3, 2.5, True, None, 10**15]  # JSON object keys json.dumps accepts besides strings


def json_key(key):
    """What a key looks like once it went through JSON."""
    if key is True:
        return "true"
    if key is False:
        return "false"
    if key is None:
        return "null"
    if isinstance(key, (int, float)):
        return repr(key)
    return key


def json_normal(value):
    if isinstance(value, dict):
        return {json_key(k): json_normal(v) for k, v in value.items()}
    if isinstance(value, list):
        return [json_normal(v) for v in value]
    return value


def gen_json_case(rnd, spec):
    odd_keys = rnd.random() < 0.2  # a histogram {1: 12, 2: 4}, a flag table {True: ..}

    def mapping(lo, hi):
        keys = [rnd.choice(["message", "time", "a", "b", "latitude"]) if rnd.random() < 0.25 else gen_text(rnd, 0, 6, 0.3, "fieldvalue") for _ in range(rnd.randint(lo, hi))]
        if odd_keys:
            keys += rnd.sample(NONSTRING_KEYS, rnd.randint(1, 3))
            rnd.shuffle(keys)
        out = [[k, gen_json_value(rnd)] for k in dict.fromkeys(keys)]
        if odd_keys and rnd.random() < 0.5:
            out.append(["histogram", {k: rnd.randint(0, 50) for k in rnd.sample(NONSTRING_KEYS + ["s"], rnd.randint(1, 4))}])
        return out

    case = {
        "kind": "json",
        "defaults": rnd.choice([None, None, mapping(0, 4), mapping(1, 4)]),
        "datefmt": rnd.choice([None, None, "", "%Y-%m-%dT%H:%M:%S", "%s", "%H h", 0, False]),
        "records": [
            {"name": gen_text(rnd, 0, 12, 0.4, "name") or "m", "payload": mapping(0, 6), "created": rnd.uniform(0, 2**32 - 1)}
            for _ in range(rnd.randint(1, 4))
        ],
        "nest": rnd.random() < 0.15,
    }
    if rnd.random() < 0.3:
        # a burst: several records within one second, a few milliseconds apart
        base = float(rnd.randint(0, 2**31))
        for k, rec in enumerate(case["records"]):
            rec["created"] = base + rnd.choice([0.001, 0.25, 0.5, 0.75]) * (k + 1) / (len(case["records"]) + 1)
    return case


def exec_json(case, result):
    from cobald.monitor.format_json import JsonFormatter

    defaults = None if case["defaults"] is None else {k: v for k, v in case["defaults"]}
    try:
        fmt = JsonFormatter(defaults, case["datefmt"])
    except Exception as err:
        return [("constructing the formatter raised %r" % (err,), None)]
    problems = []
    keep_defaults = repr(defaults)
    nested_out = {}
    records = []
    for rec in case["records"]:
        payload = {k: v for k, v in rec["payload"]}
        record = logging.LogRecord("cobald.monitor", logging.INFO, __file__, 1, rec["name"], (payload,), None)
        record.created = rec["created"]
        record.msecs = (rec["created"] - int(rec["created"])) * 1000
        records.append((rec, payload, record))
    if case.get("nest") and len(records) >= 2 and records[0][1]:
        # a report whose data is computed on demand - and computing it reports something else through the same formatter
        # (what two handlers sharing one formatter, or a value that logs while it is read, amount to)
        from collections.abc import Mapping

        inner = records[1][2]

        class Lazy(Mapping):
            def __init__(self, data):
                self.data = data

            def __iter__(self):
                return iter(self.data)

            def __len__(self):
                return len(self.data)

            def __getitem__(self, key):
                if 1 not in nested_out:
                    nested_out[1] = None
                    nested_out[1] = fmt.format(inner)
                return self.data[key]

        records[0][2].args = Lazy(records[0][1])
        result.count("json_records_whose_data_reports_another_record_while_it_is_read")
    for idx, (rec, payload, record) in enumerate(records):
        try:
            out = nested_out[idx] if nested_out.get(idx) is not None else fmt.format(record)
        except Exception as err:
            problems.append(("record %d: format raised %r" % (idx, err), None))
            continue
        result.count("json_records")
        try:
            decoded = json.loads(out)
        except ValueError as err:
            problems.append(("record %d: output %r is not JSON: %s" % (idx, out, err), None))
            continue
        want = dict(defaults or {})
        disabled = case["datefmt"] is not None and not case["datefmt"]
        if not disabled:
            want["time"] = logging.Formatter().formatTime(record, case["datefmt"])
            result.count("json_records_with_time")
        else:
            result.count("json_records_without_time")
        want["message"] = rec["name"]
        want.update(payload)
        if any(not isinstance(k, str) for k in want) or any(isinstance(v, dict) and any(not isinstance(k, str) for k in v) for v in want.values()):
            result.count("json_records_with_keys_that_are_not_strings")
        want = json_normal(want)
        if decoded != want or not isinstance(decoded, dict):
            problems.append(("record %d: decodes to %r, expected %r" % (idx, decoded, want), None))
        if repr(defaults) != keep_defaults:
            problems.append(("record %d: formatting modified the configured defaults" % idx, None))
    return problems


def nontrivial(case):
    return True


def run_shard(spec):
    result = core.Result()
    pr = probe.LineProbe("monitor/format_line.py", "monitor/format_json.py").start()
    try:
        if spec["kind"] == "line":
            core.drive(PID, spec, gen_line_case, exec_line, result)
        else:
            core.drive(PID, spec, gen_json_case, exec_json, result)
    finally:
        pr.stop()
    pr.record(result)
    return result


def finish(total, tier):
    for name in ("line_records", "json_records_whose_data_reports_another_record_while_it_is_read", "line_formatters_with_non_dict_mapping_defaults", "line_records_with_tags", "line_records_with_special_chars", "line_records_with_timestamp", "line_records_with_container_tag_values",
                 "json_records", "json_records_with_time", "json_records_without_time", "json_records_with_keys_that_are_not_strings"):
        if not total.counters.get(name) and not total.violations:
            total.inconc("monitor never observed: " + name)
