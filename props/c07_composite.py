"""C07 - composite pools conserve demand and aggregate their children faithfully.

Monitor: recording child pools under the real UniformComposite / WeightedComposite; after
each demand write the shares the children received, and after every step the aggregated
properties, are compared with an exact rational reference.
"""
from fractions import Fraction

from vlib import core, probe
from vlib.doubles import RecPool

PID = "C07"

META = {
    "level": "exploration",
    "engine": "E3 reference model",
    "rule": (
        "seeded random histories (1-25 steps: demand write D>=0 / child state change / "
        "children.append / remove / clear / re-read) over UniformComposite and "
        "WeightedComposite(weight in supply, utilisation, allocation) with 0-12 recording "
        "children; child values from {0, tiny 1e-100.., 1, huge ..1e100, random, equal}, utilisation / allocation also above 1; in 30 % of the cases a second composite of the same class exists, constructed empty and filled afterwards. "
        "Non-trivial = at least one demand write with >= 2 children; distinct by content."
    ),
    "assumptions": [
        "magnitudes in {0} u [1e-100, 1e100] so that overflow/underflow cannot occur; plus a class of denormal supply weights (multiples of 4 x 5e-324) with dyadic fitness values and integer demands 1..1000, for which all products are exact",
        "floating point comparisons use a relative tolerance of 1e-9 (observed error ~1 ulp per child)",
        "children are well-behaved pools that store the demand they are given",
    ],
    "shard_timeout": {"quick": 300, "thorough": 1500},
}
TOL = Fraction(1, 10**9)


def plan(tier, seed):
    return core.shards(seed, 120000 if tier == "thorough" else 5000, 16 if tier == "thorough" else 8)


def gen_mag(rnd, zero_p=0.2, unit=False):
    k = rnd.random()
    if k < zero_p:
        return rnd.choice([0, 0.0])
    if unit:  # a fraction-like fitness value
        # fractions, but also values above 1 (overbooked pools): the statement admits all non-negative values
        return rnd.choice([1.0, 0.5, 0.25, rnd.random(), rnd.random(), 1, 1e-100, 0.999999, 1.25, 1.75, 2, 7.5, 1 + rnd.random(), 1e3])
    if k < 0.3:
        return 10.0 ** rnd.randint(-100, -5) * rnd.randint(1, 9)
    if k < 0.4:
        return 10.0 ** rnd.randint(5, 100) * rnd.randint(1, 9)
    if k < 0.7:
        return rnd.randint(1, 50)
    return rnd.random() * 10 ** rnd.randint(-2, 3)


def gen_child(rnd, style):
    if style == "zero_weight":
        return {"supply": 0, "utilisation": 0.0, "allocation": 0.0, "demand": 0}
    if style == "equal":
        return {"supply": 3, "utilisation": 0.5, "allocation": 0.75, "demand": 0}
    if style == "denormal":  # weights at the very bottom of the float range
        # multiples of 4 units x dyadic fitness: every product stays exact although denormals have few bits
        unit = 5e-324
        return {"supply": 4 * rnd.randint(1, 250) * unit * rnd.choice([1, 1, 2**30]), "utilisation": rnd.choice([0.25, 0.5, 0.75, 1.0]),
                "allocation": rnd.choice([0.25, 0.5, 0.75, 1.0]), "demand": 0}
    return {
        "supply": gen_mag(rnd),
        "utilisation": gen_mag(rnd, 0.25, unit=True),
        "allocation": gen_mag(rnd, 0.25, unit=True),
        "demand": rnd.choice([0, 0, 1, 2.5, 10]),
    }


def gen_case(rnd, spec):
    kind = rnd.choice(["uniform", "supply", "utilisation", "allocation", "supply"])
    n = rnd.choice([0, 1, 1, 2, 2, 2, 3, 3, 4, 5, 8, 12])
    style = rnd.choice(["random", "random", "random", "zero_weight", "equal", "single", "denormal"])
    if style == "denormal":
        kind = "supply"
    children = []
    for i in range(n):
        if style == "single":
            children.append(gen_child(rnd, "random" if i == 0 else "zero_weight"))
        else:
            children.append(gen_child(rnd, style))
    rnd.shuffle(children)
    ops = []
    for _ in range(rnd.randint(1, 25)):
        k = rnd.random()
        if k < 0.4:
            # with denormal weights only integer demands: D * weight must not underflow
            ops.append(["write", rnd.randint(1, 1000) if style == "denormal" else gen_mag(rnd, 0.1)])
        elif k < 0.6:
            ops.append(["child", rnd.randint(0, 11), gen_child(rnd, "denormal" if style == "denormal" else rnd.choice(["random", "random", "zero_weight"]))])
        elif k < 0.7:
            ops.append(["append", gen_child(rnd, "denormal" if style == "denormal" else rnd.choice(["random", "zero_weight"]))])
        elif k < 0.8:
            ops.append(["remove", rnd.randint(0, 11)])
        elif k < 0.83:
            ops.append(["clear"])
        elif k < 0.88:
            # the children are replaced by assignment: a filtered list, the old ones plus a pool with a demand of its own, none
            ops.append(["assign", rnd.choice(["filter", "plus", "empty", "same"]), rnd.randint(0, 11), gen_child(rnd, "denormal" if style == "denormal" else "random")])
        else:
            ops.append(["read"])
    return {"kind": kind, "children": children, "ops": ops, "style": style, "twin": rnd.random() < 0.3, "equal": rnd.random() < 0.15}


def close(observed, exact, scale):
    """|observed - exact| <= TOL * scale (all exact rationals)."""
    return abs(Fraction(observed) - exact) <= TOL * scale


class SitePool(RecPool):
    """Pools as value objects: two pools describing the same site compare (and hash) equal - they are still two children."""

    def __eq__(self, other):
        return isinstance(other, SitePool)

    def __hash__(self):
        return hash("site")


def execute(case, result):
    return _execute(case, result, SitePool if case.get("equal") else RecPool)


def _execute(case, result, RecPool):
    global TOL
    TOL = Fraction(1, 10**9)
    if case.get("style") == "denormal":
        result.count("cases_with_denormal_weights")
    from cobald.composite.uniform import UniformComposite
    from cobald.composite.weighted import WeightedComposite

    pools = [RecPool(**c) for c in case["children"]]
    if case.get("equal") and len(pools) > 1:
        result.count("cases_whose_children_all_compare_equal")
    try:
        if case["kind"] == "uniform":
            comp = UniformComposite(*pools)
        else:
            comp = WeightedComposite(*pools, weight=case["kind"])
    except Exception as err:
        return [("constructor raised %r" % (err,), None)]
    attr = None if case["kind"] == "uniform" else case["kind"]
    problems = []
    model = list(pools)  # the children the composite must have, by identity
    twin = None
    if case.get("twin"):
        # a second composite of the same class, constructed empty and filled afterwards: the two have nothing in common
        try:
            twin = UniformComposite() if case["kind"] == "uniform" else WeightedComposite(weight=case["kind"])
            twin.children.append(RecPool(supply=40, utilisation=0.375, allocation=0.625, demand=7))
            twin.children.extend([RecPool(supply=2, utilisation=1.0, allocation=1.0, demand=1)])
            twin.demand = 11
        except Exception as err:
            return [("a second composite raised %r" % (err,), None)]
        result.count("cases_with_a_second_composite")

    def bad(msg):
        problems.append(("op %d %s: %s" % (idx, op[:2], msg), None))

    def weights(children):
        if attr is None:
            return [Fraction(1)] * len(children)
        return [Fraction(c.peek()[attr]) for c in children]

    def check_aggregates():
        children = list(comp.children)
        n = len(children)
        try:
            supply, util, alloc = comp.supply, comp.utilisation, comp.allocation
        except Exception as err:
            bad("reading aggregates raised %r" % (err,))
            return
        exact_supply = sum((Fraction(c.peek()["supply"]) for c in children), Fraction(0))
        if not close(supply, exact_supply, max(exact_supply, 1)):
            bad("supply %r is not the sum of the children's supplies %s" % (supply, float(exact_supply)))
        w = weights(children)
        total = sum(w, Fraction(0))
        for name, got in (("utilisation", util), ("allocation", alloc)):
            values = [Fraction(c.peek()[name]) for c in children]
            if n == 0:
                result.count("fallback_no_children")
                if got != 1.0:
                    bad("%s without children is %r, documented fallback is 1.0" % (name, got))
            elif attr is not None and total == 0:
                want = 0.0 if exact_supply > 0 else 1.0
                result.count("fallback_zero_weight_%s" % ("supply" if exact_supply > 0 else "nosupply"))
                if got != want:
                    bad("%s with vanishing weights and supply %s is %r, documented fallback is %r"
                        % (name, float(exact_supply), got, want))
            else:
                lo, hi = min(values), max(values)
                scale = max(hi, Fraction(1, 10**100))
                if got != got or got in (float("inf"), float("-inf")):
                    bad("%s is %r" % (name, got))
                elif not (lo - TOL * scale <= Fraction(got) <= hi + TOL * scale):
                    bad("%s %r outside the children's range [%s, %s]" % (name, got, float(lo), float(hi)))
                mean = sum((v * wi for v, wi in zip(values, w)), Fraction(0)) / total
                if got == got and got not in (float("inf"), float("-inf")) and not close(got, mean, scale):
                    bad("%s %r is not the weighted mean %s" % (name, got, float(mean)))
                result.count("aggregates_in_range")
                if lo > 1:
                    result.count("aggregates_of_children_all_above_one")

    written = [None]
    for idx, op in enumerate(case["ops"]):
        kind = op[0]
        children = list(comp.children)
        if kind == "write":
            D = op[1]
            before = [c.peek()["demand"] for c in children]
            nwrites = [c.writes for c in children]
            w = weights(children)  # weights at the time of writing
            try:
                comp.demand = D
            except Exception as err:
                bad("writing demand %r raised %r" % (D, err))
                continue
            result.count("writes_checked")
            written[0] = D
            back = comp.demand
            if back != D or type(back) is not type(D):
                bad("composite reads back %r after writing %r" % (back, D))
            if not children:
                result.count("writes_without_children")
                continue
            got = [c.peek()["demand"] for c in children]
            if any(c.writes != k + 1 for c, k in zip(children, nwrites)):
                bad("children were written %s times" % [c.writes - k for c, k in zip(children, nwrites)])
            Dx = Fraction(D)
            total = sum(w, Fraction(0))
            n = len(children)
            if attr is None:
                result.count("writes_uniform")
            if total == 0:
                want = [Dx / n] * n
                result.count("writes_uniform_fallback")
            else:
                want = [Dx * wi / total for wi in w]
                if len(set(w)) > 1:
                    result.count("writes_unequal_weights")
            scale = max(Dx, Fraction(1, 10**300))
            if any(g != g or g in (float("inf"), float("-inf")) for g in got):
                bad("shares %r are not finite" % (got,))
                continue
            s = sum((Fraction(g) for g in got), Fraction(0))
            if abs(s - Dx) > TOL * scale * n:
                bad("children's demands sum to %s, written %r (shares %r)" % (float(s), D, got))
            for i, (g, wt) in enumerate(zip(got, want)):
                if not close(g, wt, scale):
                    bad("child %d received %r, proportional share is %s" % (i, g, float(wt)))
                    break
                if Fraction(g) < 0 or Fraction(g) > Dx * (1 + TOL):
                    bad("share %r of child %d outside [0, %r]" % (g, i, D))
                    break
            del before
        elif kind == "child":
            if children:
                children[op[1] % len(children)].poke(**{k: v for k, v in op[2].items() if k != "demand"})
        elif kind == "append":
            comp.children.append(RecPool(**op[1]))
            model.append(comp.children[-1])
        elif kind == "remove":
            if children:
                # by position: the children may compare equal to each other
                del comp.children[op[1] % len(children)]
                del model[op[1] % len(children)]
        elif kind == "clear":
            comp.children.clear()
            del model[:]
        elif kind == "assign":
            if op[1] == "filter" and children:
                new = [c for i, c in enumerate(children) if i != op[2] % len(children)]
            elif op[1] == "plus":
                new = children + [RecPool(**op[3])]
            elif op[1] == "empty":
                new = []
            else:
                new = list(children)
            comp.children = new
            model[:] = new
            result.count("children_replaced_by_assignment")
        if written[0] is not None:
            # until the next write the composite reads back exactly what was written, whatever happens to its children
            try:
                back = comp.demand
            except Exception as err:  # noqa: B902
                bad("reading demand raised %r" % (err,))
                break
            if back != written[0] or type(back) is not type(written[0]):
                bad("composite reads back %r, the demand written last is %r" % (back, written[0]))
                break
            result.count("read_backs_after_later_operations")
        now = list(comp.children)
        if len(now) != len(model) or any(a is not b for a, b in zip(now, model)):
            bad("the composite's children are %d pools, %d of them not its own (it was given / appended %d)"
                % (len(now), sum(1 for c in now if not any(c is m for m in model)), len(model)))
            break
        check_aggregates()
    return problems


def nontrivial(case):
    n = len(case["children"])
    return n >= 2 and any(op[0] == "write" for op in case["ops"])


def run_shard(spec):
    result = core.Result()
    pr = probe.LineProbe("composite/weighted.py", "composite/uniform.py").start()
    try:
        core.drive(PID, spec, gen_case, execute, result, nontrivial=nontrivial)
    finally:
        pr.stop()
    pr.record(result)
    return result


def finish(total, tier):
    for needed in (
        "writes_unequal_weights", "writes_uniform_fallback", "writes_uniform", "writes_without_children",
        "fallback_no_children", "children_replaced_by_assignment", "read_backs_after_later_operations", "cases_with_a_second_composite", "fallback_zero_weight_supply", "fallback_zero_weight_nosupply", "aggregates_in_range", "aggregates_of_children_all_above_one",
    ):
        if not total.counters.get(needed) and not total.violations:
            total.inconc("monitor never observed: " + needed)
