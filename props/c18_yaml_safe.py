"""C18 - YAML loading never instantiates anything that is not a registered plugin.

Monitors: side-effect canaries - a sys.addaudithook recording imports of target modules,
os.system / subprocess / os.exec* / os.posix_spawn, canary modules whose import and whose
callables log themselves, a sys.modules diff - around the real load() of hostile documents.
Every hostile document has a benign twin (hostile node replaced by a registered tag) that
must load, and every shard first proves with PyYAML's UnsafeLoader that the canaries fire.
"""
import logging
import os
import sys
import tempfile

from vlib import core, probe

PID = "C18"

META = {
    "level": "exploration",
    "engine": "E3 hostile-input product with side-effect canaries (+E4 daemon pass in the thorough tier)",
    "rule": (
        "systematic product of hostile nodes - every python/* tag kind of PyYAML (object, object/apply with list "
        "and args/kwds mapping, object/new, name, module, tuple, dict, list, bytes, complex, long, float, int, str, "
        "unicode, bool, none) written as !!python/.., as verbatim !<tag:yaml.org,2002:python/..> and through a %TAG "
        "handle, plus unregistered !tags (plain, dotted importable names, names of real classes) - x targets "
        "(builtins, os/subprocess functions, already-imported and never-imported canary modules, cobald classes, "
        "not-yet-imported stdlib modules; every fourth hostile document replaces, in place and with the same modification time, a valid file that was loaded just before) x positions (document root, beside a logging section that names a handler factory, a second or third document of the same stream, extra section, pipeline element, inside the "
        "arguments of a lazily and of an eagerly evaluated registered tag in mapping and sequence form, nested two "
        "levels deep, behind an anchor/alias, as a key of a plain mapping and of the mapping directly under a lazy / eager "
        "registered tag, as the value of a merge key, as a tag on the top-level mapping that holds the sections, in a value that a repeated key "
        "(or a repeated section) replaces, inside the logging section); quick runs a seeded "
        "slice of the product, thorough all of it. Non-trivial = every hostile document; distinct by text."
    ),
    "assumptions": [
        "standard YAML tags that SafeLoader itself supports (!!set, !!binary, !!timestamp, !!omap ...) are not hostile",
        "the audit hook sees what CPython reports (import, os.system, subprocess.Popen, os.exec, os.posix_spawn, os.spawn)",
    ],
    "shard_timeout": {"quick": 300, "thorough": 1800},
}

COLD_MODULES = ["vcanary_cold", "vcold_pkg", "ftplib", "wave", "mailbox", "wsgiref", "dbm"]


# ------------------------------------------------------------------------------ the product
def hostile_nodes():
    """(label, yaml text of one hostile node) - flow style, usable at any position."""
    nodes = []
    callables = ["os.system", "subprocess.check_output", "subprocess.Popen", "builtins.eval", "builtins.exec", "os.getcwd",
                 "vcanary.fire", "vcanary_cold.fire", "builtins.print", "builtins.open", "ftplib.FTP", "builtins.__import__",
                 "vcold_pkg.sub.fire", "wsgiref.simple_server.make_server"]
    classes = ["vcanary.Boom", "cobald.controller.linear.LinearController", "builtins.dict", "collections.OrderedDict",
               "vplug.VPool", "cobald.daemon.runners.service.ServiceRunner", "wave.Wave_read", "vcanary_cold.IMPORTED", "vcold_pkg.sub.Boom"]
    names = callables + classes + ["vcanary.SENTINEL", "os.environ", "sys.modules"]
    modules = ["os", "sys", "subprocess", "vcanary", "vcanary_cold", "mailbox", "cobald.daemon", "vcold_pkg.sub", "dbm.dumb"]
    for c in callables:
        nodes.append(("apply-list:" + c, "!!python/object/apply:%s ['echo verif-canary']" % c))
        nodes.append(("apply-map:" + c, "!!python/object/apply:%s {args: ['echo verif-canary'], kwds: {}}" % c))
        nodes.append(("apply-bare:" + c, "!!python/object/apply:%s []" % c))
    for c in classes:
        nodes.append(("object:" + c, "!!python/object:%s {a: 1}" % c))
        nodes.append(("object-bare:" + c, "!!python/object:%s {}" % c))
        nodes.append(("new:" + c, "!!python/object/new:%s [1]" % c))
        nodes.append(("new-map:" + c, "!!python/object/new:%s {args: [1], state: {x: 1}}" % c))
    for n in names:
        nodes.append(("name:" + n, "!!python/name:%s ''" % n))
    for m in modules:
        nodes.append(("module:" + m, "!!python/module:%s ''" % m))
    typed = {
        "tuple": "[1, 2]", "dict": "{a: 1}", "list": "[1]", "bytes": "'aGVsbG8='", "complex": "'1+2j'", "long": "'1'",
        "float": "'1.5'", "int": "'1'", "str": "'x'", "unicode": "'x'", "bool": "'true'", "none": "''",
    }
    for kind, body in typed.items():
        nodes.append(("typed:" + kind, "!!python/%s %s" % (kind, body)))
    # other spellings of the same tags
    nodes.append(("verbatim-apply", "!<tag:yaml.org,2002:python/object/apply:os.system> ['echo verif-canary']"))
    nodes.append(("verbatim-name", "!<tag:yaml.org,2002:python/name:vcanary.fire> ''"))
    nodes.append(("verbatim-new", "!<tag:yaml.org,2002:python/object/new:vcanary.Boom> []"))
    nodes.append(("verbatim-tuple", "!<tag:yaml.org,2002:python/tuple> [1]"))
    nodes.append(("handle-apply", "!py!object/apply:vcanary.fire [1]"))
    nodes.append(("handle-name", "!py!name:os.system ''"))
    nodes.append(("handle-module", "!py!module:vcanary_cold ''"))
    # unregistered application tags
    for t in ["NoSuchPlugin", "vcanary.fire", "vcanary_cold.fire", "vcold_pkg.sub.fire", "os.system", "subprocess.getoutput", "LinearController2",
              "cobald.controller.linear.LinearController", "vplug.VPool", "VPoolX", "linearcontroller", "python/name:os.system"]:
        nodes.append(("untagged-list:" + t, "!%s [1]" % t))
        nodes.append(("untagged-map:" + t, "!%s {a: 1}" % t))
        nodes.append(("untagged-bare:" + t, "!%s ''" % t))
    # unregistered application tags named like the vocabulary of YAML loaders themselves (method, node and type names)
    for t, body in [("mapping", "{a: 1}"), ("sequence", "[1]"), ("scalar", "'x'"), ("pairs", "[{a: 1}]"), ("yaml_int", "'1'"), ("yaml_str", "'x'"),
                    ("yaml_float", "'1.5'"), ("yaml_bool", "'true'"), ("yaml_null", "''"), ("yaml_set", "{a: }"), ("yaml_omap", "[{a: 1}]"),
                    ("yaml_seq", "[1]"), ("yaml_map", "{a: 1}"), ("yaml_timestamp", "'2001-12-14'"), ("yaml_binary", "'aGVsbG8='"),
                    ("object", "{a: 1}"), ("document", "[1]"), ("undefined", "''"), ("int", "'1'"), ("str", "'x'"), ("map", "{a: 1}"), ("seq", "[1]"),
                    ("python_name", "'os.system'"), ("__class__", "''"), ("load", "'x'"), ("constructor", "{a: 1}")]:
        nodes.append(("untagged-vocabulary:" + t, "!%s %s" % (t, body)))
    # forbidden tags on scalars whose text looks like something to expand or interpolate
    for label, text in [("dollar-untagged", "!NoSuchPlugin $HOME/pool.cfg"), ("dollar-name", "!!python/name:os.system ${X}"),
                        ("dollar-apply-scalar", "!!python/object/apply:os.system \"echo $HOME\""), ("dollar-module", "!!python/module:os $PATH"),
                        ("percent-untagged", "!NoSuchPlugin '%(name)s'"), ("brace-untagged", "!vcanary.fire '{0} {name}'")]:
        nodes.append((label, text))
    # unregistered tags of other families: the yaml.org namespace without python/, foreign namespaces (verbatim, or
    # through a %TAG handle), verbatim tags without any prefix
    for label, text in [("yamlorg-widget-map", "!!widget {a: 1}"), ("yamlorg-widget-list", "!!widget [1]"), ("yamlorg-python-no-kind", "!!python ''"),
                        ("yamlorg-Python-name", "!!Python/name:os.system ''"), ("yamlorg-pythonx", "!!pythonx/object/apply:os.system [1]"),
                        ("foreign-verbatim-map", "!<tag:example.org,2024:widget> {a: 1}"), ("foreign-verbatim-bare", "!<tag:example.org,2024:widget> ''"),
                        ("bare-verbatim-python", "!<python/name:os.system> ''"), ("bare-verbatim-widget", "!<widget> [1]"),
                        ("foreign-handle-map", "!e!widget {a: 1}"), ("foreign-handle-apply", "!e!python/object/apply:vcanary.fire [1]")]:
        nodes.append((label, text))
    return nodes


HANDLES = {"!py!": "tag:yaml.org,2002:python/", "!e!": "tag:example.org,2024:"}


def handle_of(node):
    return next((h for h in HANDLES if node.startswith(h)), None)


POSITIONS = {
    "root": "%(h)s\n",
    "extra_section": "pipeline:\n  - !VPool\nvextra: %(h)s\n",
    "extra_nested": "pipeline:\n  - !VPool\nvextra: {a: [1, {b: %(h)s}]}\n",
    "pipeline_element": "pipeline:\n  - %(h)s\n  - !VPool\n",
    "pipeline_tail": "pipeline:\n  - !VDeco\n  - %(h)s\n",
    "lazy_map_arg": "pipeline:\n  - !VDeco {a: %(h)s}\n  - !VPool\n",
    "lazy_seq_arg": "pipeline:\n  - !VDeco [1, %(h)s]\n  - !VPool\n",
    "eager_map_arg": "pipeline:\n  - !VDeco\n  - !VPoolNow {a: %(h)s}\n",
    "eager_seq_arg": "pipeline:\n  - !VDeco\n  - !VPoolNow [%(h)s]\n",
    "nested_tag_arg": "pipeline:\n  - !VDeco {a: !VSnapEager [!VSnapLazy {k: [%(h)s]}]}\n  - !VPool\n",
    "type_element_arg": "pipeline:\n  - {__type__: vplug.VDeco, a: %(h)s}\n  - !VPool\n",
    "anchored": "pipeline:\n  - !VDeco {a: &anc %(h)s, b: *anc}\n  - !VPool\n",
    "mapping_key": "pipeline:\n  - !VPool\nvextra: {? %(h)s : value}\n",
    "lazy_tag_mapping_key": "pipeline:\n  - !VDeco {? %(h)s : 1}\n  - !VPool\n",
    "eager_tag_mapping_key": "pipeline:\n  - !VDeco\n  - !VPoolNow {? %(h)s : 1}\n",
    "merge_value": "pipeline:\n  - !VPool {<<: %(h)s, b: 2}\n",
    # on the single-pair mappings that are the entries of an ordered mapping / a list of pairs
    "omap_entry": "pipeline:\n  - !VPool\nvextra: !!omap [%(h)s]\n",
    "pairs_entry": "pipeline:\n  - !VPool {a: !!pairs [{k: 1}, %(h)s]}\n",
    # under keys that look special to other parts of the configuration language
    "tag_mapping_args_key": "pipeline:\n  - !VDeco {__args__: %(h)s, a: 1}\n  - !VPool\n",
    "eager_tag_mapping_args_key": "pipeline:\n  - !VDeco\n  - !VPoolNow {__args__: %(h)s}\n",
    "root_tag_on_sections": "--- %(tag)s\npipeline:\n  - !VPool\nvextra: {a: 1}\n",
    "dup_key_lazy": "pipeline:\n  - !VDeco {a: %(h)s, a: 1}\n  - !VPool\n",
    "dup_key_eager": "pipeline:\n  - !VDeco\n  - !VPoolNow {a: %(h)s, a: 1}\n",
    "dup_key_plain": "pipeline:\n  - !VPool\nvextra: {a: {b: %(h)s, b: 1}}\n",
    "dup_section": "vextra: %(h)s\npipeline:\n  - !VPool\nvextra: {b: 1}\n",
    "logging_section": "logging: {version: 1, x: %(h)s}\npipeline:\n  - !VPool\n",
    "shipped_tag_arg": "pipeline:\n  - !LinearController {rate: %(h)s}\n  - !VPool\n",
    # under a keyword that the tag's factory (one with an explicit signature) does not take
    "unknown_keyword_of_strict_factory": "pipeline:\n  - !LinearController {rate: 2, no_such_option: %(h)s}\n  - !VPool\n",
    "unknown_keyword_of_strict_factory_nested": "pipeline:\n  - !Standardiser {minimum: 0, no_such_option: [%(h)s]}\n  - !VPool\n",
    "unknown_keyword_of_strict_helper": "pipeline:\n  - !VPool\nvextra: {thing: !VSnapStrict {size: 3, no_such_option: %(h)s}}\n",
    "unknown_keyword_of_strict_eager_helper": "pipeline:\n  - !VPool {a: !VSnapStrictNow {size: 3, no_such_option: [%(h)s]}}\n",
    # the refused document also has a logging section naming a factory: nothing of a refused document may be applied
    "beside_logging_factory": "logging: {version: 1, disable_existing_loggers: false, handlers: {h: {'()': vcanary_cold.handler}}, loggers: {verif.c18: {handlers: [h]}}}\npipeline:\n  - !VPool\nvextra: {a: %(h)s}\n",
    # in a plain nested container that is still being filled in when an eagerly evaluated tag is constructed later on
    "pending_container_before_eager_tag": "vextra: {a: {b: [%(h)s]}}\npipeline:\n  - !VDeco\n  - !VPoolNow {x: 1}\n",
    "lazy_element_before_eager_tag": "pipeline:\n  - !VDeco {a: {deep: [%(h)s]}}\n  - !VPoolNow [1]\n",
    # under a top-level key that looks "hidden" (a place for anchors): still part of the document
    "hidden_top_level_key": ".defaults: {a: %(h)s}\npipeline:\n  - !VPool\n",
    "hidden_top_level_list": ".anchors:\n  - &x %(h)s\npipeline:\n  - !VPool\n",
    # beside a legacy __type__ mapping that names a module nobody has imported: a refused document imports nothing
    "beside_type_mapping_in_tag": "pipeline:\n  - !VDeco {a: {__type__: vcanary_cold.fire}, b: %(h)s}\n  - !VPool\n",
    "beside_type_mapping_eager": "pipeline:\n  - !VDeco\n  - !VPoolNow [{__type__: vcold_pkg.sub.thing}, [%(h)s]]\n",
    # a later document of the same stream (the file is one configuration: everything in it is "the document")
    "second_document": "pipeline:\n  - !VPool\n%(directive)s---\nextra: %(h)s\n",
    "second_document_root": "pipeline:\n  - !VPool\n...\n%(directive)s--- %(h)s\n",
    "third_document": "pipeline:\n  - !VPool\n---\n---\n%(directive)s---\n- [%(h)s]\n",
}
ENTRY_POSITIONS = ("omap_entry", "pairs_entry")
MULTI_DOC = ("second_document", "second_document_root", "third_document")
HIDDEN = ("hidden_top_level_key", "hidden_top_level_list")  # the twin is the document without that key
BENIGN = "!VSnapLazy {ok: 1}"
KEY_POSITIONS = ("mapping_key", "lazy_tag_mapping_key", "eager_tag_mapping_key")


def all_cases():
    cases = []
    for label, node in hostile_nodes():
        for pos, template in POSITIONS.items():
            handle = handle_of(node)
            declare = "%%TAG %s %s\n" % (handle, HANDLES[handle]) if handle else ""
            directive = "...\n" + declare if handle else ""
            if pos == "second_document_root" and directive:
                directive = directive[4:]  # the template ends the first document itself
            text = template % {"h": node, "tag": node.split(" ")[0], "directive": directive}
            if pos in MULTI_DOC:
                pass  # the first document needs no directive
            elif handle and pos == "root_tag_on_sections":
                text = declare + text  # the template brings its own document marker
            elif handle:
                text = declare + "---\n" + text
            cases.append({"label": label, "position": pos, "text": text})
    return cases


def plan(tier, seed):
    total = len(all_cases())
    if tier == "thorough":
        k = 8
        specs = [dict(seed=seed, shard=i, of=k, stride=1, total=total) for i in range(k)]
        specs.append(dict(seed=seed, shard="daemon", kind="daemon", n=40))
        return specs
    k = 4
    return [dict(seed=seed, shard=i, of=k, stride=2, total=total) for i in range(k)]


# ------------------------------------------------------------------------------ canaries
class Canaries:
    HOOK_INSTALLED = False
    active = None

    def __init__(self):
        self.events = []

    @classmethod
    def install(cls):
        if cls.HOOK_INSTALLED:
            return
        cls.HOOK_INSTALLED = True

        def hook(event, args):
            self = cls.active
            if self is None:
                return
            if event == "import":
                name = args[0]
                if name.split(".")[0] in COLD_MODULES:
                    self.events.append("import of %s" % name)
            elif event in ("os.system", "subprocess.Popen", "os.exec", "os.posix_spawn", "os.spawn", "os.fork", "os.forkpty"):
                self.events.append("%s%r" % (event, tuple(args)[:1]))

        sys.addaudithook(hook)

    def __enter__(self):
        import vcanary

        Canaries.install()
        del vcanary.FIRED[:]
        self.before = set(sys.modules)
        self.events = []
        Canaries.active = self
        return self

    def __exit__(self, *exc):
        import vcanary

        Canaries.active = None
        self.events += list(vcanary.FIRED)
        for name in set(sys.modules) - self.before:
            if name.split(".")[0] in COLD_MODULES:
                self.events.append("module %s appeared in sys.modules" % name)
                del sys.modules[name]
        return False


SUFFIX = [".yaml"]  # the extension used for the next file: both spellings select the YAML loader


def write_config(text):
    with tempfile.NamedTemporaryFile("w", suffix=SUFFIX[0], prefix="cobald-verif-", delete=False) as f:
        f.write(text)
        return f.name


def load_path(path):
    from cobald.daemon.core.config import load

    with load(path) as config:
        return config


def overwrite_keeping_mtime(path, text):
    """What cp -p / rsync -t do: new content, old modification time."""
    stat = os.stat(path)
    with open(path, "w") as f:
        f.write(text)
    os.utime(path, ns=(stat.st_atime_ns, stat.st_mtime_ns))


def load_text(text):
    path = write_config(text)
    try:
        return load_path(path)
    finally:
        os.unlink(path)


def purge_cold():
    for name in [m for m in sys.modules if m.split(".")[0] in COLD_MODULES]:
        del sys.modules[name]


def selftest(result):
    """Positive control: with PyYAML's UnsafeLoader the canaries do fire."""
    import yaml

    doc = "a: !!python/object/apply:vcanary.fire [1]\nb: !!python/object/new:vcanary.Boom []\nc: !!python/module:wave ''\n"
    with Canaries() as can:
        yaml.load(doc, Loader=yaml.UnsafeLoader)
    fired = set(can.events)
    need = {"called vcanary.fire", "instantiated vcanary.Boom via __new__"}
    if need <= fired and any("wave" in e for e in fired):
        result.count("canary_selftests_fired")
    else:
        result.inconc("canaries did not fire under UnsafeLoader: %r" % sorted(fired))


def run_product(spec, result):
    import vplug
    import vcanary  # noqa: F401  (an already-imported target, on purpose)
    import subprocess  # noqa: F401
    import collections  # noqa: F401

    selftest(result)
    cases = all_cases()
    rnd = core.rng(PID, spec["seed"])
    order = list(range(len(cases)))
    rnd.shuffle(order)
    mine = [i for n, i in enumerate(order) if n % spec["of"] == spec["shard"]][:: spec["stride"]]
    only = spec.get("only_case")
    for i in mine:
        if only is not None and i != only:
            continue
        case = cases[i]
        SUFFIX[0] = ".yml" if i % 3 == 0 else ".yaml"
        if SUFFIX[0] == ".yml":
            result.count("hostile_documents_in_yml_files")
        hostile = hostile_nodes_by_label()[case["label"]]
        special = {"root": "{pipeline: [!VPool ]}", "pipeline_element": "!VDeco", "pipeline_tail": "!VPool", "mapping_key": "plainkey",
                   "lazy_tag_mapping_key": "plainkey", "eager_tag_mapping_key": "plainkey", "shipped_tag_arg": "2", "merge_value": "{a: 1}", "omap_entry": "{a: 1}", "pairs_entry": "{a: 1}"}
        if case["position"] in MULTI_DOC or case["position"] in HIDDEN:
            twin = "pipeline:\n  - !VPool\n"  # the stream without the later documents / without the extra key
        elif case["position"] == "root_tag_on_sections":
            twin = case["text"].replace("--- " + hostile.split(" ")[0], "---")
        elif case["position"].startswith("unknown_keyword_of_strict"):
            twin = case["text"].replace(", no_such_option: [%s]" % hostile, "").replace(", no_such_option: %s" % hostile, "")
        else:
            twin = case["text"].replace(hostile, special.get(case["position"], BENIGN))
        # the benign twin must load: "everything is rejected" cannot pass.  For every fourth case it is loaded first, from the
        # very file that is then overwritten in place (same modification time) with the hostile document
        in_place = i % 4 == 0
        if i % 9 == 2:
            # the same two documents at the size of a real site configuration (100 kB of comments at the end, for
            # multi-document streams in front): how a file is read must not depend on how big it is
            pad = "".join("# site note %04d %s\n" % (k, "x" * 80) for k in range(1100))
            grow = (lambda text: text + pad) if case["position"] not in MULTI_DOC and not case["text"].startswith(("%TAG", "---")) else (lambda text: text)
            if grow(twin) != twin:
                twin, case = grow(twin), dict(case, text=grow(case["text"]))
                result.count("hostile_documents_of_100_kB")
        path = None
        vplug.reset()
        try:
            if in_place:
                path = write_config(twin)
                load_path(path)
            else:
                load_text(twin)
            result.count("benign_twins_loaded")
        except Exception as e:  # noqa: B902
            result.inconc("benign twin of %s/%s does not load: %r\n%s" % (case["label"], case["position"], e, twin))
            in_place = False
        purge_cold()
        logging.getLogger("verif.c18").handlers.clear()
        vplug.reset()
        err, loaded = None, None
        with Canaries() as can:
            try:
                if in_place:
                    overwrite_keeping_mtime(path, case["text"])
                    result.count("hostile_documents_replacing_a_loaded_file_in_place")
                    loaded = load_path(path)
                else:
                    loaded = load_text(case["text"])
            except Exception as e:  # noqa: B902
                err = e
        if path is not None and os.path.exists(path):
            os.unlink(path)
        result.case(case, key=case["text"])
        result.count("hostile_documents")
        result.count("position_" + case["position"])
        kind = case["label"].split(":")[0]
        result.count("kind_" + kind)
        problems = []
        if err is None:
            problems.append("hostile document loaded without error (result %r)" % (loaded,))
        if can.events:
            problems.append("canaries fired: %s" % sorted(set(can.events)))
        mech = None
        if case["position"] == "merge_value" and err is None and not can.events:
            # PyYAML flattens the value of a merge key without ever looking at its tag: the document
            # loads, the tag is ignored, nothing is constructed
            mech = "C18/merge-value-tag-ignored"
        if case["position"] in ENTRY_POSITIONS and err is None and not can.events:
            # PyYAML takes the key and the value out of an !!omap / !!pairs entry without looking at the entry's own tag
            mech = "C18/omap-entry-tag-ignored"
        for p in problems:
            clean = {k: v for k, v in spec.items() if k != "only_case"}
            result.violation("%s at %s: %s\n%s" % (case["label"], case["position"], p, case["text"]), case, mech, spec=clean, case_id=i)


_BY_LABEL = None


def hostile_nodes_by_label():
    global _BY_LABEL
    if _BY_LABEL is None:
        _BY_LABEL = dict(hostile_nodes())
    return _BY_LABEL


def run_daemon(spec, result):
    """Process-level pass: python -m cobald.daemon on hostile documents (thorough tier)."""
    import subprocess

    cases = all_cases()
    rnd = core.rng(PID, spec["seed"], "daemon")
    picks = rnd.sample(range(len(cases)), spec["n"])
    env = dict(os.environ)
    for i in picks:
        case = cases[i]
        with tempfile.TemporaryDirectory(prefix="cobald-verif-") as tmp:
            cfg = os.path.join(tmp, "config.yaml")
            marker = os.path.join(tmp, "canary.log")
            with open(cfg, "w") as f:
                f.write(case["text"].replace("echo verif-canary", "echo fired >> %s" % marker))
            env["VERIF_CANARY_FILE"] = marker
            # the recorded merge-key finding at process level: the document loads, so the daemon runs
            mech = "C18/merge-value-tag-ignored" if case["position"] == "merge_value" else "C18/omap-entry-tag-ignored" if case["position"] in ENTRY_POSITIONS else None
            try:
                proc = subprocess.run([core.PYTHON, "-m", "cobald.daemon", cfg], env=env, capture_output=True, text=True, timeout=20 if mech else 60)
            except subprocess.TimeoutExpired:
                if os.path.exists(marker):
                    mech = None
                result.violation("daemon stayed up on a hostile configuration\n" + case["text"], case, mech, spec=spec, case_id=i)
                continue
            result.case(case, key="daemon:" + case["text"])
            result.count("daemon_runs")
            if proc.returncode == 0:
                result.violation("daemon exited 0 on a hostile configuration\n" + case["text"], case, mech if not os.path.exists(marker) else None, spec=spec, case_id=i)
            if os.path.exists(marker):
                result.violation("canary fired in the daemon: %s\n%s" % (open(marker).read(), case["text"]), case, None, spec=spec, case_id=i)


def run_shard(spec):
    result = core.Result()
    pr = probe.LineProbe("daemon/core/config.py", "daemon/config/yaml.py").start()
    try:
        if spec.get("kind") == "daemon":
            run_daemon(spec, result)
        else:
            run_product(spec, result)
    finally:
        pr.stop()
    pr.record(result)
    return result


def finish(total, tier):
    need = ["hostile_documents", "hostile_documents_of_100_kB", "benign_twins_loaded", "canary_selftests_fired", "hostile_documents_replacing_a_loaded_file_in_place", "hostile_documents_in_yml_files"] + ["position_" + p for p in POSITIONS]
    need += ["kind_" + k for k in ("apply-list", "object", "new", "name", "module", "typed", "untagged-list", "yamlorg-widget-map", "foreign-verbatim-map", "foreign-handle-map", "bare-verbatim-python")]
    for name in need:
        if not total.counters.get(name) and not total.violations:
            total.inconc("monitor never observed: " + name)
