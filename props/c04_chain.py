"""C04 - a >> chain builds exactly the nested pipeline, however grouped or curried.

Monitors: recording classes generated from a signature spec append to a global construction
log; the object graph and the log are compared with hand-nesting; every template call is
compared with an independent model of Python call binding computed from the spec (not from
inspect).
"""
import itertools

from vlib import core, probe

PID = "C04"

META = {
    "level": "exploration",
    "engine": "E3 reference model (construction log + independent binding model)",
    "rule": (
        "kind=chain: chains of 2-10 generated recording classes (controller head, decorators, pool or "
        "composite-like tail, a fifth of them with a truth value of False; signatures mixing positional, defaulted, keyword-only, *args, **kwargs) under a "
        "random parenthesisation of the >> operators, 3 tail forms (instance / template / curried template) "
        "and each element's arguments split over 0-4 template calls, every chain built twice from the same "
        "template and pending sub-chain objects; kind=paren: ALL parenthesisations for "
        "2-7 elements x 3 tail forms (exhaustive); kind=eager: sequences of template calls with valid and "
        "invalid argument lists against generated and shipped classes, each call judged by the binding model; "
        "kind=shipped: pipelines of the shipped controllers/decorators/composites vs hand nesting; kind=long: chains of 1200-2500 elements (left- and right-grouped, pool instance or template as tail). "
        "Non-trivial = chain of >= 3 elements or an argument list with >= 1 argument; distinct by content."
    ),
    "assumptions": [
        "constructor parameters are positional-or-keyword, keyword-only, *args or **kwargs (no positional-only)",
        "the keyword __leaf__ is reserved by Partial (documented) and never used as an argument name",
        "keywords named self / cls are not generated: they collide with the first parameter of the template methods and of the constructor itself",
    ],
    "shard_timeout": {"quick": 300, "thorough": 1500},
}


def plan(tier, seed):
    big = tier == "thorough"
    specs = core.shards(seed, 60000 if big else 2500, 6 if big else 3, kind="chain")
    specs += core.shards(seed, 120000 if big else 5000, 6 if big else 3, kind="eager")
    specs += core.shards(seed, 20000 if big else 800, 3 if big else 1, kind="shipped")
    for s in specs:
        s["shard"] = "%s-%s" % (s["kind"], s["shard"])
    specs.append(dict(seed=seed, shard="paren", n=1, kind="paren", max_n=8 if big else 7))
    specs.append(dict(seed=seed, shard="long", total=12 if big else 4, n=12 if big else 4, kind="long"))
    return specs


# ------------------------------------------------------------------------------ generated classes
LOG = []
_CLASS_CACHE = {}


def _bases():
    from cobald.interfaces import Controller, PoolDecorator, Pool

    class RecController(Controller):
        async def run(self):
            pass

    class RecDecorator(PoolDecorator):
        async def run(self):
            pass

    class RecLeaf(Pool):
        supply = demand = 0
        utilisation = allocation = 1.0

        async def run(self):
            pass

    return {"controller": RecController, "decorator": RecDecorator, "pool": RecLeaf, "composite": RecLeaf}


BASES = None


def make_class(kind, spec, service_wrapped=False, ephemeral=False):
    """A class whose __init__ has exactly the signature described by spec."""
    global BASES
    if BASES is None:
        BASES = _bases()
    key = (kind, repr(spec), service_wrapped)
    if key in _CLASS_CACHE and not ephemeral:
        return _CLASS_CACHE[key]
    params = ["self"]
    nonleaf = kind in ("controller", "decorator")
    first = spec.get("first", "target")  # what the constructor calls the pool it is put in front of
    if nonleaf:
        params.append(first)
    names = []
    for name, has_default in spec["pos"]:
        params.append(name + ("='<default %s>'" % name if has_default else ""))
        names.append(name)
    if spec["varargs"]:
        params.append("*rest")
    elif spec["kwonly"]:
        params.append("*")
    for name, has_default in spec["kwonly"]:
        params.append(name + ("='<default %s>'" % name if has_default else ""))
        names.append(name)
    if spec["varkw"]:
        params.append("**extra")
    via_new = bool(spec.get("via_new"))  # the arguments are taken by a strict __new__ (interned / frozen instances), __init__ takes anything
    if via_new:
        params[0] = "cls"
        body = ["def __new__(%s):" % ", ".join(params), "    self = object.__new__(cls)"]
    else:
        body = ["def __init__(%s):" % ", ".join(params)]
    if nonleaf:
        body.append("    BASE.__init__(self, %s)" % first)
    body.append("    self.bound = {%s}" % ", ".join("%r: %s" % (n, n) for n in names))
    body.append("    self.rest = %s" % ("tuple(rest)" if spec["varargs"] else "()"))
    body.append("    self.extra = %s" % ("dict(extra)" if spec["varkw"] else "{}"))
    body.append("    LOG.append(self)")
    if via_new:
        body += ["    return self", "def __init__(self, *args, **kwargs):", "    pass"]
    ns = {"BASE": BASES[kind], "LOG": LOG}
    exec("\n".join(body), ns)
    members = {"__new__": ns["__new__"], "__init__": ns["__init__"]} if via_new else {"__init__": ns["__init__"]}
    cls = type("Gen%s%d" % (kind.title(), len(_CLASS_CACHE)), (BASES[kind],), members)
    if service_wrapped:
        import trio
        from cobald.daemon.runners.service import service

        cls = service(flavour=trio)(cls)
    if not ephemeral:
        _CLASS_CACHE[key] = cls
    return cls


def gen_spec(rnd):
    npos = rnd.choice([0, 0, 1, 1, 2, 3])
    ndef = rnd.randint(0, npos)
    pos = [["p%d" % i, i >= npos - ndef] for i in range(npos)]
    nkw = rnd.choice([0, 0, 1, 2])
    kwonly = [["k%d" % i, rnd.random() < 0.5] for i in range(nkw)]
    return {"pos": pos, "varargs": rnd.random() < 0.3, "kwonly": kwonly, "varkw": rnd.random() < 0.3,
            "first": rnd.choice(["target", "target", "target", "pool", "subject"]), "via_new": rnd.random() < 0.12}


# ------------------------------------------------------------------------------ binding model
class BindError(Exception):
    pass


def model_partial(spec, leaf, positionals, keywords, pool_first=False):
    """Can (positionals, keywords) - accumulated so far - still bind?  Raises BindError if never.

    Written from the language rules for calls, not from inspect.
    """
    if (spec.get("first", "target") in keywords or "target" in keywords) and not leaf:
        raise BindError("target passed by keyword")
    if pool_first and not leaf:
        raise BindError("target passed positionally")
    pos_names = [n for n, _ in spec["pos"]]
    if len(positionals) > len(pos_names) and not spec["varargs"]:
        raise BindError("too many positional arguments")
    filled = set(pos_names[: len(positionals)])
    known = set(pos_names) | {n for n, _ in spec["kwonly"]}
    for k in keywords:
        if k in filled:
            raise BindError("multiple values for %s" % k)
        if k not in known and not spec["varkw"]:
            raise BindError("unexpected keyword %s" % k)
        if k == "target" and leaf and k not in known and not spec["varkw"]:
            raise BindError("unexpected keyword target")


def model_full(spec, positionals, keywords):
    """The bound arguments of a complete call (target excluded)."""
    model_partial(spec, True, positionals, {k: v for k, v in keywords.items() if k != "target"})
    pos_names = [n for n, _ in spec["pos"]]
    bound, extra = {}, {}
    for name, value in zip(pos_names, positionals):
        bound[name] = value
    rest = tuple(positionals[len(pos_names):])
    known = set(pos_names) | {n for n, _ in spec["kwonly"]}
    for k, v in keywords.items():
        if k in known:
            bound[k] = v
        else:
            extra[k] = v
    for name, has_default in spec["pos"] + spec["kwonly"]:
        if name not in bound:
            if not has_default:
                raise BindError("missing %s" % name)
            bound[name] = "<default %s>" % name
    return bound, rest, extra


def gen_full_args(rnd, spec):
    """A complete valid argument list for spec: (positionals, keywords)."""
    pos_names = [n for n, _ in spec["pos"]]
    required = [n for n, d in spec["pos"] if not d]
    npos = rnd.randint(0, len(pos_names))
    if spec["varargs"] and npos == len(pos_names) and rnd.random() < 0.5:
        npos += rnd.randint(1, 3)
    positionals = ["v%d" % rnd.randint(0, 99) for _ in range(npos)]
    keywords = {}
    for name in pos_names[npos:]:
        if name in required or rnd.random() < 0.5:
            keywords[name] = "kv%d" % rnd.randint(0, 99)
    for name, has_default in spec["kwonly"]:
        if not has_default or rnd.random() < 0.5:
            keywords[name] = "kv%d" % rnd.randint(0, 99)
    if spec["varkw"]:
        for i in range(rnd.choice([0, 0, 1, 2])):
            keywords["x%d" % i] = "xv%d" % rnd.randint(0, 99)
    return positionals, keywords


def split_calls(rnd, positionals, keywords):
    """Split the arguments over 0-4 template calls (positional order preserved)."""
    ncalls = rnd.randint(0, 4)
    if ncalls == 0:
        return [[list(positionals), dict(keywords)]]  # everything in the .s() call itself
    cuts = sorted(rnd.randint(0, len(positionals)) for _ in range(ncalls))
    chunks, prev = [], 0
    for c in cuts + [len(positionals)]:
        chunks.append(list(positionals[prev:c]))
        prev = c
    kw_calls = [dict() for _ in chunks]
    for k, v in keywords.items():
        kw_calls[rnd.randrange(len(chunks))][k] = v
    return [[c, kw] for c, kw in zip(chunks, kw_calls)]


# ------------------------------------------------------------------------------ chains
def gen_tree(rnd, lo, hi):
    """Random parenthesisation of leaves lo..hi-1 as nested pairs."""
    if hi - lo == 1:
        return lo
    cut = rnd.randint(lo + 1, hi - 1)
    return [gen_tree(rnd, lo, cut), gen_tree(rnd, cut, hi)]


def all_trees(lo, hi):
    if hi - lo == 1:
        yield lo
        return
    for cut in range(lo + 1, hi):
        for left in all_trees(lo, cut):
            for right in all_trees(cut, hi):
                yield [left, right]


def gen_chain(rnd, spec):
    n = rnd.choice([2, 2, 3, 3, 4, 4, 5, 6, 7, 8, 10])
    elements = []
    for i in range(n):
        tail = i == n - 1
        kind = rnd.choice(["pool", "composite"]) if tail else ("controller" if (i == 0 and rnd.random() < 0.6) or rnd.random() < 0.1 else "decorator")  # controllers also below the head
        sp = gen_spec(rnd)
        if kind == "composite":
            sp["varargs"] = True
        positionals, keywords = gen_full_args(rnd, sp)
        elements.append({"kind": kind, "spec": sp, "service": rnd.random() < 0.2,
                         "calls": split_calls(rnd, positionals, keywords),
                         "args": [positionals, keywords]})
    return {"kind": "chain", "elements": elements, "falsy_tail": rnd.random() < 0.2, "tail_form": rnd.choice(["instance", "template", "curried"]),
            "tree": gen_tree(rnd, 0, n)}


def run_chain(case, result):
    del LOG[:]
    elements = case["elements"]
    n = len(elements)
    classes = [make_class(e["kind"], e["spec"], e["service"]) for e in elements]
    if case.get("falsy_tail"):
        # the pool is also an (empty) container, e.g. a composite without children yet: its truth value is False
        classes[-1] = type("Empty" + classes[-1].__name__, (classes[-1],), {"__len__": lambda self: 0})
        result.count("chains_with_a_falsy_pool")
    items = []
    try:
        for i, (e, cls) in enumerate(zip(elements, classes)):
            calls = e["calls"]
            if i == n - 1 and case["tail_form"] == "instance":
                items.append(cls(*e["args"][0], **e["args"][1]))
                continue
            if i == n - 1 and case["tail_form"] == "template":
                calls = [[e["args"][0], e["args"][1]]]
            tmpl = cls.s(*calls[0][0], **calls[0][1])
            for pos, kw in calls[1:]:
                new = tmpl(*pos, **kw)
                if new is tmpl:
                    return [("currying returned the same template object", None)]
                tmpl = new
            items.append(tmpl)
    except TypeError as err:
        return [("bindable arguments rejected while building templates: %r" % (err,), None)]
    prebuilt = list(LOG)
    del LOG[:]

    memo = {}

    def has_tail(tree):
        return tree == n - 1 if isinstance(tree, int) else has_tail(tree[0]) or has_tail(tree[1])

    def evaluate(tree, parent_has_tail=True):
        if isinstance(tree, int):
            return items[tree]
        key = repr(tree)
        mine = has_tail(tree)
        if key in memo and not parent_has_tail:
            # second round: the very same pending sub-chain object is used as an operand again (the outermost
            # pending sub-chains are rebuilt from their parts, so that inner ones really are operands twice)
            return memo[key]
        left = evaluate(tree[0], mine)
        right = evaluate(tree[1], mine)
        out = left >> right
        if not mine:
            memo[key] = out
        return out

    problems = []
    # two rounds: templates and pending (grouped) sub-chains are values and may be used for several pipelines
    for round_no in range(2):
        if round_no == 1:
            if not memo and n < 3:
                break
            if case["tail_form"] == "instance":
                del LOG[:]
                items[-1] = classes[-1](*elements[-1]["args"][0], **elements[-1]["args"][1])
                prebuilt = list(LOG)
            else:
                prebuilt = []
            del LOG[:]
            result.count("chains_rebuilt_from_reused_templates")
        try:
            head = evaluate(case["tree"])
        except Exception as err:
            return [("chain %r raised %r%s" % (case["tree"], err, " when its templates were used a second time" if round_no else ""), None)]
        found = verify_chain(case, classes, elements, items, head, list(LOG), prebuilt, n)
        if found:
            tag = " (second pipeline built from the same templates and pending sub-chains)" if round_no else ""
            problems += [(what + tag, mech) for what, mech in found]
            break
    result.count("chains_checked")
    result.count("chain_elements", n)
    result.count("chains_tail_" + case["tail_form"])
    return problems


def verify_chain(case, classes, elements, items, head, built, prebuilt, n):
    problems = []
    # walk the result
    chain = []
    obj = head
    for i in range(n):
        chain.append(obj)
        if i < n - 1:
            obj = getattr(obj, "target", None)
    for i, (obj, cls, e) in enumerate(zip(chain, classes, elements)):
        if type(obj) is not cls:
            problems.append(("element %d is %r, expected an instance of %s (%s)" % (i, obj, cls.__name__, e["kind"]), None))
            return problems
        try:
            want = model_full(e["spec"], e["args"][0], e["args"][1])
        except BindError as err:  # generator bug, not a finding
            raise AssertionError("generator produced unbindable arguments: %s" % err)
        got = (obj.bound, obj.rest, obj.extra)
        if got != want:
            problems.append(("element %d (%s) was constructed with %r, hand nesting gives %r" % (i, e["kind"], got, want), None))
    if case["tail_form"] == "instance":
        if chain[-1] is not items[-1]:
            problems.append(("tail is not the given pool instance", None))
        want_log = list(reversed(chain[:-1]))
        if prebuilt != [items[-1]]:
            problems.append(("creating templates constructed %d objects" % (len(prebuilt) - 1), None))
    else:
        want_log = list(reversed(chain))
        if prebuilt:
            problems.append(("creating templates constructed %d objects" % len(prebuilt), None))
    if len(built) != len(want_log) or any(a is not b for a, b in zip(built, want_log)):
        problems.append(("construction log %r, expected each element once, last to first: %r"
                         % ([type(o).__name__ for o in built], [type(o).__name__ for o in want_log]), None))
    return problems


def run_paren(case, result):
    """All parenthesisations for n = 2..max_n elements x 3 tail forms (exhaustive)."""
    problems = []
    total = 0
    rnd = core.rng(PID, "paren")
    for n in range(2, case["max_n"] + 1):
        elements = []
        for i in range(n):
            kind = "pool" if i == n - 1 else ("controller" if i == 0 else "decorator")
            sp = {"pos": [["p0", False], ["p1", True]], "varargs": False, "kwonly": [["k0", True]], "varkw": False}
            args = [["v%d" % i], {"k0": "k%d" % i}]
            elements.append({"kind": kind, "spec": sp, "service": False, "calls": split_calls(rnd, *args), "args": args})
        for tree in all_trees(0, n):
            for form in ("instance", "template", "curried"):
                sub = {"elements": elements, "tail_form": form, "tree": tree}
                found = run_chain(sub, result)
                total += 1
                if found:
                    problems.append(("n=%d tree=%r tail=%s: %s" % (n, tree, form, found[0][0]), None))
                    if len(problems) > 3:
                        return problems
    result.count("parenthesisations_exhaustive", total)
    return problems


# ------------------------------------------------------------------------------ eager signature check
SHIPPED = None


def shipped():
    """Hand-written specs of the shipped classes (from their __init__ definitions)."""
    global SHIPPED
    if SHIPPED is None:
        from cobald.decorator.standardiser import Standardiser
        from cobald.decorator.logger import Logger
        from cobald.decorator.buffer import Buffer
        from cobald.controller.linear import LinearController
        from cobald.controller.relative_supply import RelativeSupplyController
        from cobald.controller.switch import DemandSwitch
        from cobald.composite.uniform import UniformComposite
        from cobald.composite.weighted import WeightedComposite
        from cobald.composite.factory import FactoryPool
        from cobald.interfaces import PoolDecorator

        def sp(pos, varargs=False, kwonly=(), varkw=False):
            return {"pos": [[n, d] for n, d in pos], "varargs": varargs, "kwonly": [[n, d] for n, d in kwonly], "varkw": varkw}

        SHIPPED = {
            "Standardiser": (Standardiser, False, sp([("minimum", 1), ("maximum", 1), ("granularity", 1), ("backlog", 1), ("surplus", 1)])),
            "Logger": (Logger, False, sp([("name", 1), ("message", 1), ("level", 1)])),
            "PoolDecorator": (PoolDecorator, False, sp([])),
            "Buffer": (Buffer, False, sp([("window", 1)])),
            "LinearController": (LinearController, False, sp([("low_utilisation", 1), ("high_allocation", 1), ("rate", 1), ("interval", 1)])),
            "RelativeSupplyController": (RelativeSupplyController, False, sp([("low_utilisation", 1), ("high_allocation", 1), ("low_scale", 1), ("high_scale", 1), ("interval", 1)])),
            "DemandSwitch": (DemandSwitch, False, sp([("default", 0)], varargs=True, kwonly=[("interval", 1)])),
            "UniformComposite": (UniformComposite, True, sp([], varargs=True)),
            "WeightedComposite": (WeightedComposite, True, sp([], varargs=True, kwonly=[("weight", 1)])),
            "FactoryPool": (FactoryPool, True, sp([], varargs=True, kwonly=[("factory", 0), ("interval", 1)])),
        }
    return SHIPPED


def gen_eager(rnd, spec):
    kind_is_generated = False
    if rnd.random() < 0.35:
        name = rnd.choice(["Standardiser", "Logger", "PoolDecorator", "Buffer", "LinearController", "RelativeSupplyController",
                           "DemandSwitch", "UniformComposite", "WeightedComposite", "FactoryPool"])
        target = {"shipped": name}
        # argument names are drawn from the real parameter names plus wrong ones
        from_names = {
            "Standardiser": ["minimum", "maximum", "granularity", "backlog", "surplus"],
            "Logger": ["name", "message", "level"], "PoolDecorator": [], "Buffer": ["window"],
            "LinearController": ["low_utilisation", "high_allocation", "rate", "interval"],
            "RelativeSupplyController": ["low_utilisation", "high_allocation", "low_scale", "high_scale", "interval"],
            "DemandSwitch": ["default", "interval"], "UniformComposite": [], "WeightedComposite": ["weight"],
            "FactoryPool": ["factory", "interval"],
        }[name]
        npos_max = 7
    else:
        kind_is_generated = True
        sp = gen_spec(rnd)
        kind = rnd.choice(["controller", "decorator", "pool", "composite"])
        if kind == "composite":
            sp["varargs"] = True
        # ephemeral: the class only lives for this case and is garbage collected afterwards (its address gets reused)
        target = {"kind": kind, "spec": sp, "service": rnd.random() < 0.25, "ephemeral": rnd.random() < 0.4,
                  # a subclass that adds nothing: constructor and signature are inherited
                  "subclass": rnd.random() < 0.3}
        from_names = [n for n, _ in sp["pos"] + sp["kwonly"]]
        npos_max = len(sp["pos"]) + 2
    calls = []
    for _ in range(rnd.randint(1, 5)):
        k = rnd.random()
        npos = 0 if k < 0.5 else rnd.randint(0, 2) if k < 0.9 else rnd.randint(0, npos_max)
        pos = [rnd.randint(1, 9) for _ in range(npos)]
        if rnd.random() < 0.06:
            pos.insert(0, "<POOL>")
        kw = {}
        for _ in range(rnd.choice([0, 0, 1, 1, 2])):
            r = rnd.random()
            if from_names and r < 0.7:
                kw[rnd.choice(from_names)] = rnd.randint(1, 9)
            elif r < 0.8:
                # the pool given by keyword, under the name the constructor has for it
                first = target.get("spec", {}).get("first", "target") if kind_is_generated else "target"
                kw[first] = "<POOL>" if rnd.random() < 0.7 else rnd.randint(1, 9)
            else:
                kw[rnd.choice(["foo", "rest", "extra", "x0", "args", "kwargs", "ctor", "leaf"])] = 1
        calls.append([pos, kw])
    return {"kind": "eager", "target": target, "calls": calls}


def run_eager(case, result):
    from cobald.interfaces import Pool

    t = case["target"]
    if "shipped" in t:
        cls, leaf, spec = shipped()[t["shipped"]]
        label = t["shipped"]
    else:
        cls = make_class(t["kind"], t["spec"], t["service"], ephemeral=t.get("ephemeral", False))
        if t.get("ephemeral"):
            result.count("eager_cases_with_short_lived_class")
        if t.get("subclass"):
            cls = type("Sub" + cls.__name__, (cls,), {"__doc__": "inherits everything"})
            result.count("eager_cases_with_plain_subclass%s" % ("_of_service_class" if t["service"] else ""))
        leaf = t["kind"] in ("pool", "composite")
        spec = t["spec"]
        label = "generated %s %r" % (t["kind"], spec)
    wrapped = getattr(cls.__new__, "__name__", "") == "__new_service__"
    pool = BASES["pool"]() if BASES else _bases()["pool"]()
    problems = []
    tmpl = None
    acc_pos, acc_kw = [], {}
    for idx, (pos, kw) in enumerate(case["calls"]):
        pos = [pool if p == "<POOL>" else p for p in pos]
        kw = {k: (pool if v == "<POOL>" else v) for k, v in kw.items()}
        new_pos = acc_pos + pos
        duplicate = sorted(set(acc_kw) & set(kw))
        new_kw = dict(acc_kw, **kw)
        reason = None
        if duplicate:
            reason = "keyword %s supplied twice" % duplicate[0]
        else:
            try:
                model_partial(spec, leaf, new_pos, new_kw, pool_first=bool(new_pos) and isinstance(new_pos[0], Pool))
            except BindError as err:
                reason = str(err)
        raised = None
        try:
            new = cls.s(*pos, **kw) if tmpl is None else tmpl(*pos, **kw)
        except TypeError as err:
            raised = err
        except Exception as err:
            problems.append(("call %d on %s raised %r (not TypeError)" % (idx, label, err), None))
            break
        result.count("template_calls_checked")
        if reason is None:
            result.count("calls_bindable")
            if raised is not None:
                pool_arg = any(isinstance(p, Pool) for p in new_pos) or "target" in new_kw
                mech = "C04/leaf-template-rejects-pool-argument" if leaf and pool_arg else None
                problems.append(("call %d on %s: arguments %r %r can still bind but were rejected: %s"
                                 % (idx, label, new_pos, new_kw, raised), mech))
                break
            tmpl, acc_pos, acc_kw = new, new_pos, new_kw
        else:
            result.count("calls_unbindable")
            if raised is None:
                mech = None
                only_signature = not duplicate and not ("target" in new_kw and not leaf) and not (
                    bool(new_pos) and isinstance(new_pos[0], Pool) and not leaf)
                if wrapped and only_signature:
                    mech = "C04/service-wrapped-ctor"
                if wrapped and only_signature and spec.get("via_new"):
                    # the class takes its arguments in a strict __new__ and has a permissive __init__; the service decorator
                    # puts its own __new__(cls, *args, **kwargs) in front, so no signature is left that could refuse anything
                    mech = "C04/service-class-with-strict-new"
                problems.append(("call %d on %s: arguments %r %r can never bind (%s) but were accepted"
                                 % (idx, label, new_pos, new_kw, reason), mech))
                break
            # rejected as it must be: the previous template stays usable
    if "shipped" not in t and t.get("ephemeral"):
        import gc

        del cls, tmpl
        gc.collect()
    return problems


# ------------------------------------------------------------------------------ shipped pipelines
def gen_shipped(rnd, spec):
    decos = []
    for _ in range(rnd.randint(0, 5)):
        name = rnd.choice(["Standardiser", "Logger", "Buffer", "PoolDecorator"])
        kw = {}
        if name == "Standardiser":
            if rnd.random() < 0.5:
                kw["minimum"] = rnd.randint(-5, 5)
            if rnd.random() < 0.5:
                kw["granularity"] = rnd.randint(1, 5)
        elif name == "Logger":
            if rnd.random() < 0.5:
                kw["name"] = "verif.c04.%d" % rnd.randint(0, 5)
            if rnd.random() < 0.5:
                kw["level"] = rnd.randint(1, 50)
        elif name == "Buffer" and rnd.random() < 0.7:
            kw["window"] = rnd.randint(1, 60)
        decos.append([name, kw, rnd.random() < 0.5])
    head = rnd.choice([None, "LinearController", "RelativeSupplyController", "Stepwise", "DemandSwitch"])
    hkw = {}
    if head in ("LinearController", "RelativeSupplyController", "Stepwise", "DemandSwitch") and rnd.random() < 0.7:
        hkw["interval"] = rnd.randint(1, 60)
    if head == "LinearController" and rnd.random() < 0.5:
        hkw["rate"] = rnd.randint(1, 9)
    n = len(decos) + (1 if head else 0) + 1
    step = None
    if head == "Stepwise":
        # rules registered on the skeleton, extra (threshold, rule) pairs given positionally to s() and to a later call
        thresholds = rnd.sample([1, 2, 5, 10, 50, 100, 1000], rnd.choice([0, 0, 1, 2, 3, 4]))
        cut = sorted(rnd.randint(0, len(thresholds)) for _ in range(2))
        step = {"registered": thresholds[:cut[0]], "in_s": thresholds[cut[0]:cut[1]], "in_call": thresholds[cut[1]:],
                "late": rnd.random() < 0.3}
    return {"kind": "shipped", "head": head, "head_kw": hkw, "decorators": decos, "step": step,
            "tail": rnd.choice(["instance", "uniform", "weighted"]), "tree": gen_tree(rnd, 0, n) if n > 1 else 0}


def run_shipped(case, result):
    import cobald.decorator.standardiser as st
    import cobald.decorator.logger as lg
    import cobald.decorator.buffer as bf
    from cobald.interfaces import PoolDecorator
    from cobald.controller.linear import LinearController
    from cobald.controller.relative_supply import RelativeSupplyController
    from cobald.controller.switch import DemandSwitch
    from cobald.controller.stepwise import Stepwise, stepwise
    from cobald.composite.uniform import UniformComposite
    from cobald.composite.weighted import WeightedComposite
    from vlib.doubles import RecPool

    classes = {"Standardiser": st.Standardiser, "Logger": lg.Logger, "Buffer": bf.Buffer, "PoolDecorator": PoolDecorator,
               "LinearController": LinearController, "RelativeSupplyController": RelativeSupplyController}
    items, expect = [], []  # expect: (class, attribute dict)
    base_rule = lambda pool, interval: None  # noqa: E731
    default_ctrl = LinearController(None)
    head = case["head"]
    try:
        if head in ("LinearController", "RelativeSupplyController"):
            items.append(classes[head].s(**case["head_kw"]))
            expect.append((classes[head], case["head_kw"]))
        elif head == "Stepwise":
            step = case.get("step") or {"registered": [], "in_s": [], "in_call": [], "late": False}
            rules = {t: (lambda pool, interval, t=t: t) for t in step["registered"] + step["in_s"] + step["in_call"]}
            skeleton = stepwise(base_rule)
            for t in step["registered"]:
                skeleton.add(rules[t], supply=t)
            tmpl = skeleton.s(*[(t, rules[t]) for t in step["in_s"]], **case["head_kw"])
            if step["in_call"]:
                tmpl = tmpl(*[(t, rules[t]) for t in step["in_call"]])
            if step["late"]:
                skeleton.add(lambda pool, interval: -1, supply=7777)  # the template is sealed: this is not part of it
            items.append(tmpl)
            bounds = sorted(rules)
            lookup = {}
            for low, high, rule in zip([0] + bounds, bounds + [float("inf")], [base_rule] + [rules[t] for t in bounds]):
                lookup[low, high] = rule
            expect.append((Stepwise, dict(case["head_kw"], **{"_selector._lookup": lookup})))
            if rules:
                result.count("shipped_stepwise_with_rules")
            if step["in_s"] or step["in_call"]:
                result.count("shipped_stepwise_with_positional_rule_pairs")
        elif head == "DemandSwitch":
            items.append(DemandSwitch.s(default_ctrl)(**case["head_kw"]))
            expect.append((DemandSwitch, case["head_kw"]))
        for name, kw, curried in case["decorators"]:
            tmpl = classes[name].s()(**kw) if curried else classes[name].s(**kw)
            items.append(tmpl)
            expect.append((classes[name], kw))
        a, b = RecPool(demand=1), RecPool(demand=2)
        if case["tail"] == "instance":
            items.append(a)
            expect.append((RecPool, {}))
        elif case["tail"] == "uniform":
            items.append(UniformComposite.s())
            expect.append((UniformComposite, {}))
        else:
            items.append(WeightedComposite.s(weight="allocation"))
            expect.append((WeightedComposite, {"_weight": "allocation"}))
        del b
    except TypeError as err:
        return [("valid arguments of shipped classes rejected: %r" % (err,), None)]

    def evaluate(tree):
        if isinstance(tree, int):
            return items[tree]
        return evaluate(tree[0]) >> evaluate(tree[1])

    try:
        head_obj = evaluate(case["tree"])
    except Exception as err:
        return [("shipped chain raised %r" % (err,), None)]
    if len(items) == 1:
        result.count("shipped_single")
        return []
    problems = []
    obj = head_obj
    for i, (cls, attrs) in enumerate(expect):
        if type(obj) is not cls:
            problems.append(("element %d is %r, expected %s" % (i, obj, cls.__name__), None))
            break
        for k, v in attrs.items():
            if k == "_selector._lookup":
                got = obj._selector._lookup
                if set(got) != set(v) or any(got[r] is not v[r] for r in v):
                    problems.append(("element %d (Stepwise) selects rules for %r, configured %r" % (i, sorted(got), sorted(v)), None))
                continue
            got = obj.name if (cls is lg.Logger and k == "name") else getattr(obj, k)
            if got != v:
                problems.append(("element %d (%s).%s is %r, configured %r" % (i, cls.__name__, k, got, v), None))
        if i < len(expect) - 1:
            obj = obj.target
    if not problems and case["tail"] == "instance" and obj is not items[-1]:
        problems.append(("tail is not the given pool", None))
    result.count("shipped_chains_checked")
    return problems


GEN = {"chain": gen_chain, "eager": gen_eager, "shipped": gen_shipped, "long": None}
EXE = {"chain": run_chain, "eager": run_eager, "shipped": run_shipped, "long": None}


def nontrivial(case):
    if case.get("kind") == "chain":
        return len(case["elements"]) >= 3
    if case.get("kind") == "eager":
        return any(pos or kw for pos, kw in case["calls"])
    return True


def gen_long(rnd, spec):
    return {"kind": "long", "n": rnd.choice([1200, 1800, 2500]), "tail": rnd.choice(["instance", "template"]),
            "grouping": rnd.choice(["left", "left", "right"])}


def run_long(case, result):
    """A very long chain: as many elements as a big site may have decorators - far beyond Python's recursion limit."""
    simple = {"pos": [["p0", True]], "varargs": False, "kwonly": [], "varkw": False}
    deco = make_class("decorator", simple)
    ctrl = make_class("controller", simple)
    pool_cls = make_class("pool", simple)
    n = case["n"]
    del LOG[:]
    try:
        templates = [ctrl.s(p0=0)] + [deco.s(p0=i) for i in range(1, n - 1)]
        tail = pool_cls(p0=n - 1) if case["tail"] == "instance" else pool_cls.s(p0=n - 1)
        if case["tail"] == "instance":
            del LOG[:]  # the pool instance exists already: it is not constructed by the chain
        if case["grouping"] == "left":
            chain = templates[0]
            for t in templates[1:]:
                chain = chain >> t
            head = chain >> tail
        else:
            bound = tail
            head = None
            for t in reversed(templates):
                bound = t >> bound
            head = bound
    except RecursionError as err:
        return [("a chain of %d elements (%s-grouped, tail %s) cannot be built: %r - nesting the constructors by hand in a loop works" % (n, case["grouping"], case["tail"], err), None)]
    except Exception as err:  # noqa: B902
        return [("building a chain of %d elements raised %r" % (n, err), None)]
    result.count("long_chains_checked")
    problems = []
    # walk the pipeline: head, then target by target
    seen, obj = [], head
    while obj is not None and len(seen) <= n:
        seen.append(obj)
        obj = getattr(obj, "target", None)
    values = [o.bound.get("p0") for o in seen]
    if values != list(range(n)):
        problems.append(("the pipeline built from %d elements has %d objects; first arguments out of order: %r..." % (n, len(seen), [v for i, v in enumerate(values) if v != i][:5]), None))
    want_log = n if case["tail"] == "template" else n - 1
    if len(LOG) != want_log:
        problems.append(("%d constructions for a chain of %d elements (tail %s)" % (len(LOG), n, case["tail"]), None))
    elif case["grouping"] == "left" and [o.bound.get("p0") for o in LOG] != list(range(n - 1, -1, -1))[(0 if case["tail"] == "template" else 1):]:
        problems.append(("the %d elements were not constructed last to first" % n, None))
    del LOG[:]
    return problems


def run_shard(spec):
    global BASES
    result = core.Result()
    pr = probe.LineProbe("interfaces/_partial.py", "interfaces/_pool.py", "interfaces/_controller.py", "interfaces/_proxy.py").start()
    try:
        if BASES is None:
            BASES = _bases()
        if spec["kind"] == "paren":
            case = {"kind": "paren", "max_n": spec["max_n"]}
            problems = run_paren(case, result)
            result.case(case, key="paren")
            result.distinct |= {core.digest(("paren", i)) for i in range(result.counters.get("parenthesisations_exhaustive", 0))}
            result.evaluations += result.counters.get("parenthesisations_exhaustive", 0)
            for what, mech in problems:
                result.violation(what, case, mech, spec=spec, case_id=0)
        elif spec["kind"] == "long":
            core.drive(PID, spec, gen_long, run_long, result, nontrivial=lambda case: True)
        else:
            core.drive(PID, spec, GEN[spec["kind"]], EXE[spec["kind"]], result, nontrivial=nontrivial)
    finally:
        pr.stop()
    pr.record(result)
    return result


def finish(total, tier):
    for name in ("chains_checked", "chains_rebuilt_from_reused_templates", "chains_tail_instance", "chains_tail_template", "chains_tail_curried",
                 "parenthesisations_exhaustive", "template_calls_checked", "calls_bindable", "calls_unbindable",
                 "shipped_chains_checked", "shipped_stepwise_with_positional_rule_pairs", "long_chains_checked", "chains_with_a_falsy_pool", "eager_cases_with_short_lived_class", "eager_cases_with_plain_subclass", "eager_cases_with_plain_subclass_of_service_class"):
        if not total.counters.get(name) and not total.violations:
            total.inconc("monitor never observed: " + name)


del itertools
