"""C14 - config sections are validated, then digested once each in constraint order.

Monitor: generated section plugins are installed as *real entry points* (a dist-info written
into a scratch directory on sys.path, pointing at plugins/vsect.py), so the shipped
load_section_plugins / SectionPlugin.load / toposort / load_configuration path runs; the
digests append to a call log that is compared with the configuration and the constraints.
"""
import os
import shutil
import sys
import tempfile
import threading

from vlib import core, probe

PID = "C14"
GROUP = "cobald.verif.sections"

META = {
    "level": "exploration",
    "engine": "E3 reference model (real entry points, digest call log)",
    "rule": (
        "seeded random plugin sets (0-8 plugins) with random acyclic before/after constraint graphs "
        "(both directions, redundant edges, declared as lists / tuples / sets / one-shot iterators and generators, 0-3 constraint names that are not installed, plugins "
        "with and without declared requirements), required flags, and configuration mappings over "
        "random subsets of the sections, optionally with unknown sections and a logging section, "
        "given as a mapping (section contents may hold live objects: instances without value equality, a lock) or through a YAML file; digest results None / falsy / objects. "
        "Non-trivial = at least 2 plugins and at least one constraint; distinct by content."
    ),
    "assumptions": [
        "'P before Q' / 'Q after P' mean P's digest is called before Q's (SectionPlugin.load docstring and the code agree on this)",
        "the constraint graph between installed plugins is acyclic (quantifier of the property)",
        "a digest that raises makes loading fail because of it: loading does not return normally, the error is the digest's own or carries it as cause/context, and it does not claim that the (present) section is missing (load_configuration does not catch what a digest raises; the property is silent about failing digests)",
    ],
    "shard_timeout": {"quick": 300, "thorough": 1500},
}


def plan(tier, seed):
    return core.shards(seed, 60000 if tier == "thorough" else 3000, 16 if tier == "thorough" else 8)


NAMES = ["alpha", "beta", "gamma", "delta", "eps", "zeta", "eta", "theta", "pipeline", "x-y", "Über"]
ABSENT = ["ghost", "phantom", "missing_plugin", "logging"]  # logging is a built-in section, not an installed plugin


def gen_case(rnd, spec):
    n = rnd.choice([0, 1, 2, 2, 3, 3, 4, 5, 6, 8])
    names = rnd.sample(NAMES, n)
    order = list(names)
    rnd.shuffle(order)  # a hidden linear order all constraints are consistent with
    rank = {s: i for i, s in enumerate(order)}
    plugins = []
    density = rnd.choice([0.0, 0.2, 0.5, 0.9])
    for s in names:
        before, after = [], []
        for other in names:
            if other == s:
                continue
            if rank[s] < rank[other] and rnd.random() < density:
                before.append(other)
            if rank[other] < rank[s] and rnd.random() < density:
                after.append(other)
        for ghost in ABSENT:
            if rnd.random() < 0.15:
                (before if rnd.random() < 0.5 else after).append(ghost)
        plugins.append({
            "section": s,
            "required": rnd.random() < 0.3,
            "before": before,
            "after": after,
            "result": rnd.choice([None, None, 0, "", [], False, {"k": 1}, "obj", 7]),
            "plain": not before and not after and rnd.random() < 0.4,
            "iterable": rnd.choice(["list", "list", "tuple", "set", "iter", "generator", "map", "dictkeys"]),
        })
        if plugins[-1]["plain"]:
            plugins[-1]["required"] = False
        elif (before or after) and rnd.random() < 0.25:
            # the digest function happens to be called like one of the sections it refers to (def pipeline(...) for section "monitoring")
            plugins[-1]["funcname"] = rnd.choice(before + after)
    if plugins and rnd.random() < 0.15:
        # the same callable installed under a second section name (as `builtins:dict` may be): two plugins, one digest
        twin = dict(rnd.choice(plugins))
        twin["alias_of"], twin["section"] = twin["section"], rnd.choice([x for x in ("twin", "mirror", "again") if x not in names])
        plugins.append(twin)
    rnd.shuffle(plugins)  # declaration (entry point file) order
    config = {}
    for p in plugins:
        if p.get("alias_of") or any(q.get("alias_of") == p["section"] for q in plugins):
            if rnd.random() < 0.85:
                config[p["section"]] = {"which": p["section"]}  # tells the two calls of the shared digest apart
        elif rnd.random() < 0.7:
            config[p["section"]] = rnd.choice([{"a": 1}, [1, 2, {"b": None}], "text", 0, None, {}, [], {"nested": {"deep": [1.5, True]}},
                                               # live objects inside the content (what a YAML tag builds): handed on as they are
                                               {"built": "<opaque>"}, ["<opaque>", {"guard": "<lock>"}],
                                               # the whole section is something else than JSON-like data: what a !Tag built, a date, a set
                                               "<opaque>", "<date>", "<bytes>", "<tuple>", "<set>"])
    unknown = []
    if rnd.random() < 0.3:
        unknown = rnd.sample(["typo", "pipelin", "extra", "Logging", "__anchors__", "__", "____", "__type__", ".hidden", "_private", "logging ", "", "0"], rnd.randint(1, 2))
        for u in unknown:
            config[u] = {"x": 1}
    if rnd.random() < 0.3:
        config["logging"] = {"version": 1}
    items = list(config.items())
    rnd.shuffle(items)
    raises = None
    present = [p["section"] for p in plugins if p["section"] in config and not p.get("alias_of") and not any(q.get("alias_of") == p["section"] for q in plugins)]
    if present and not unknown and rnd.random() < 0.1:
        # one digest fails while it processes its section (a key it looks up is not there, a value is unusable)
        raises = {"section": rnd.choice(present), "kind": rnd.choice(["KeyError", "KeyError", "LookupError", "ValueError", "TypeError"])}
    return {"plugins": plugins, "config": dict(items), "unknown": unknown, "via_yaml": rnd.random() < 0.3, "raises": raises}


class Opaque:
    """An object without value equality (like an instance a YAML tag has built)."""


def same_objects(a, b):
    """Containers may be rebuilt, the live objects in them must be the very same."""
    if isinstance(b, dict):
        return isinstance(a, dict) and set(a) == set(b) and all(same_objects(a[k], b[k]) for k in b)
    if isinstance(b, list):
        return isinstance(a, list) and len(a) == len(b) and all(same_objects(x, y) for x, y in zip(a, b))
    if isinstance(b, (int, float, str, bool, type(None))):
        return a == b
    return a is b


class Env:
    """A scratch directory on sys.path holding the dist-info of the current case."""

    def __init__(self):
        self.dir = tempfile.mkdtemp(prefix="cobald-verif-ep-")
        self.info = os.path.join(self.dir, "verifcase-1.0.dist-info")
        os.mkdir(self.info)
        with open(os.path.join(self.info, "METADATA"), "w") as f:
            f.write("Metadata-Version: 2.1\nName: verifcase\nVersion: 1.0\n")
        sys.path.insert(0, self.dir)

    def install(self, plugins):
        import vsect

        table = {}
        lines = ["[%s]" % GROUP]
        attrs = {}
        for i, p in enumerate(plugins):
            if p.get("alias_of"):
                continue
            attr = attrs[p["section"]] = "digest_%d" % i
            table[attr] = p
            lines.append("%s = vsect:%s" % (p["section"], attr))
        for p in plugins:
            if p.get("alias_of"):
                lines.append("%s = vsect:%s" % (p["section"], attrs[p["alias_of"]]))  # the very same callable
        with open(os.path.join(self.info, "entry_points.txt"), "w") as f:
            f.write("\n".join(lines) + "\n")
        vsect.install(table)
        return vsect

    def close(self):
        sys.path.remove(self.dir)
        shutil.rmtree(self.dir, ignore_errors=True)


ENV = None


def execute(case, result):
    import yaml
    from cobald.daemon.core.config import load_section_plugins
    from cobald.daemon.config.mapping import load_configuration, ConfigurationError, SectionPlugin
    from cobald.daemon.config.yaml import load_configuration as load_yaml

    plugins = case["plugins"]
    vsect = ENV.install(plugins)
    vsect.CURRENT["raises"] = case.get("raises")
    problems = []
    if any(p.get("alias_of") for p in plugins):
        result.count("plugin_sets_with_one_callable_under_two_section_names")
    try:
        loaded = load_section_plugins(GROUP)
    except Exception as err:
        return [("load_section_plugins raised %r for an acyclic constraint graph" % (err,), None)]
    sections = [p["section"] for p in plugins]
    got_sections = [p.section for p in loaded]
    if sorted(got_sections) != sorted(sections) or not all(isinstance(p, SectionPlugin) for p in loaded):
        return [("installed plugins %r, loaded %r" % (sections, got_sections), None)]
    installed = set(sections)
    pairs = []  # (earlier, later)
    for p in plugins:
        pairs += [(p["section"], b) for b in p["before"] if b in installed]
        pairs += [(a, p["section"]) for a in p["after"] if a in installed]
    result.count("constraints_between_installed", len(pairs))
    result.count("constraints_naming_absent", sum(1 for p in plugins for x in p["before"] + p["after"] if x not in installed))
    pos = {s: i for i, s in enumerate(got_sections)}
    for a, b in pairs:
        if not pos[a] < pos[b]:
            problems.append(("plugin order %r violates '%s before %s'" % (got_sections, a, b), None))
            break
    for lp in loaded:
        spec = next(p for p in plugins if p["section"] == lp.section)
        if lp.required != spec["required"] or set(lp.before) != set(spec["before"]) or set(lp.after) != set(spec["after"]):
            problems.append(("plugin %s lost its requirements: %r" % (lp.section, lp), None))

    def realise(value):
        if value == "<opaque>":
            return Opaque()
        if value == "<lock>":
            return threading.Lock()
        if value == "<date>":
            import datetime

            return datetime.date(2024, 2, 29)
        if value == "<bytes>":
            return b"\x00raw"
        if value == "<tuple>":
            return (1, "two")
        if value == "<set>":
            return {"x", "y"}
        if isinstance(value, dict):
            return {k: realise(v) for k, v in value.items()}
        if isinstance(value, list):
            return [realise(v) for v in value]
        return value

    live = any(marker in repr(case["config"]) for marker in ("<opaque>", "<lock>", "<date>", "<bytes>", "<tuple>", "<set>"))
    via_yaml = case["via_yaml"] and not live
    config = {k: realise(v) for k, v in case["config"].items()}
    if live:
        result.count("configs_with_live_objects_in_the_content")
    expect_error = None
    if case["unknown"]:
        expect_error = "unknown"
    else:
        missing = [p["section"] for p in plugins if p["required"] and p["section"] not in config]
        if missing:
            expect_error = "missing"
    if expect_error:
        vsect.CURRENT["raises"] = None  # one fault at a time
    err = None
    try:
        if via_yaml:
            path = os.path.join(ENV.dir, "config.yaml")
            with open(path, "w") as f:
                yaml.safe_dump(config, f, allow_unicode=True)
            content = load_yaml(path, plugins=loaded)
            result.count("configs_via_yaml_file")
        else:
            content = load_configuration(dict(config), plugins=loaded)
    except ConfigurationError as e:
        err = e
    except Exception as e:
        if case.get("raises") and expect_error is None and vsect.CURRENT["raised"] is not None and e is vsect.CURRENT["raised"]:
            err = e
        else:
            return problems + [("loading raised %r instead of a configuration error" % (e,), None)]
    log = list(vsect.CURRENT["log"])
    called = [s for s, _ in log]
    if case.get("raises") and expect_error is None:
        # a digest failed while it processed a section that is there: loading fails because of that, and says so
        result.count("configs_with_a_failing_digest")
        boom = vsect.CURRENT["raised"]
        if boom is None:
            problems.append(("the plugin of the present section %r was never called" % case["raises"]["section"], None))
        elif err is None:
            problems.append(("the digest of section %r raised %r, but loading returned normally (%r): the failure was swallowed"
                             % (case["raises"]["section"], boom, content), None))
        elif err is not boom and err.__cause__ is not boom and err.__context__ is not boom:
            problems.append(("the digest of section %r raised %r, loading failed with the unrelated %r" % (case["raises"]["section"], boom, err), None))
        elif "missing" in str(err).lower() and err is not boom:
            problems.append(("section %r is present and its digest raised %r, loading reports %r" % (case["raises"]["section"], boom, err), None))
        if len(called) != len(set(called)):
            problems.append(("plugins called more than once: %r" % called, None))
        return problems
    if expect_error == "unknown":
        result.count("configs_unknown_section")
        if err is None:
            problems.append(("configuration with unclaimed section(s) %r was accepted" % (case["unknown"],), None))
        if log:
            problems.append(("plugins %r ran although section(s) %r are not claimed by any plugin" % (called, case["unknown"]), None))
    elif expect_error == "missing":
        result.count("configs_missing_required")
        if err is None:
            problems.append(("configuration without required section was accepted", None))
    else:
        result.count("configs_valid")
        if err is not None:
            problems.append(("valid configuration rejected: %s" % err, None))
            return problems
        want_called = [s for s in got_sections if s in config]
        if sorted(called) != sorted(want_called):
            problems.append(("digests called for %r, sections present for %r" % (called, want_called), None))
        else:
            result.count("digest_calls", len(called))
            for s, received in log:
                if received != config[s] or type(received) is not type(config[s]) or (live and not same_objects(received, config[s])):
                    problems.append(("digest of %r received %r, section content is %r" % (s, received, config[s]), None))
            cpos = {s: i for i, s in enumerate(called)}
            for a, b in pairs:
                if a in cpos and b in cpos and not cpos[a] < cpos[b]:
                    problems.append(("call order %r violates '%s before %s'" % (called, a, b), None))
                    break
            want_content = {p["section"]: p["result"] for p in plugins if p["section"] in config and p["result"] is not None}
            got_content = {}
            for key, value in content.items():
                if not isinstance(key, SectionPlugin):
                    problems.append(("result keyed by %r" % (key,), None))
                else:
                    got_content[key.section] = value
            if got_content != want_content or any(type(got_content[k]) is not type(v) for k, v in want_content.items() if k in got_content):
                problems.append(("kept results %r, expected %r" % (got_content, want_content), None))
            result.count("results_kept", len(want_content))
            result.count("results_none_dropped", sum(1 for p in plugins if p["section"] in config and p["result"] is None))
    return problems


def nontrivial(case):
    return len(case["plugins"]) >= 2 and any(p["before"] or p["after"] for p in case["plugins"])


def run_shard(spec):
    global ENV
    result = core.Result()
    ENV = Env()
    pr = probe.LineProbe("daemon/core/config.py", "daemon/config/mapping.py", "daemon/plugins.py").start()
    try:
        core.drive(PID, spec, gen_case, execute, result, nontrivial=nontrivial)
    finally:
        pr.stop()
        ENV.close()
    pr.record(result)
    return result


def finish(total, tier):
    for name in ("constraints_between_installed", "constraints_naming_absent", "configs_unknown_section", "configs_missing_required",
                 "configs_valid", "digest_calls", "results_kept", "results_none_dropped", "configs_via_yaml_file", "configs_with_live_objects_in_the_content",
                 "plugin_sets_with_one_callable_under_two_section_names", "configs_with_a_failing_digest"):
        if not total.counters.get(name) and not total.violations:
            total.inconc("monitor never observed: " + name)
