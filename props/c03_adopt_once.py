"""C03 - every adopted payload and every service is started exactly once.

Monitor (E1): `start` events written by the payloads themselves (received arguments compared
with the supplied ones by identity for mutables, sniffio library, thread, loop / trio token),
counted at quiescence after several polling cycles of the service loop, before the harness
stops the runtime; call / return / raised events of every adopt at the client boundary.
"""
from vlib import core
from vlib.rt import common

PID = "C03"

META = {
    "level": "exploration",
    "engine": "E1 runtime scenario engine",
    "rule": (
        "seeded random scenarios: 0-12 payloads and 0-4 services per flavour; argument lists empty / positional "
        "only / keyword only / mixed, with mutable markers; submission before start (a quarter of those adopt the very same callable two or three times; in 40 % of the scenarios by 2-4 threads at the same time), right after `running`, and "
        "after 10+ polling cycles; from an outside thread, from thread / asyncio / trio payloads, in bursts without "
        "a checkpoint, through chains three deep and from executed payloads; services (of classes decorated directly, plain subclasses, classes with falsy instances, classes whose instances all compare equal, subclasses decorated again with the same or the other coroutine flavour) created before start, by the "
        "driver, inside payloads, and as replacements for finished, garbage-collected services within one polling "
        "cycle; payloads that wait on a gate opened only after adopt returned (adopt must not wait for them); "
        "kind=storm: 40-130 services created (and some dropped) by 2-3 threads while the accept loop polls every 10-20 ms, with delay "
        "injection also inside the WeakSet that registers the units; kind=again: the steady scenario in the second run of a runner that was shut down once; kind=redecorated: two forced schedules for a service class that is decorated twice (same / other flavour), the instance created while the accept loop polls between the two registrations (the recorded finding); kind=idle: nothing keeps the asyncio loop busy and asyncio payloads are adopted from outside, from a thread payload and "
        "from a thread payload that drives a private event loop; kind=window: adoption from outside threads and from inside cleaning-up payloads while a trio payload with "
        "long shielded cleanup keeps the runtime in its shutdown phase. Non-trivial = >= 3 adoptions judged."
    ),
    "assumptions": [
        "quiescence = 0.35 s plus 14 polling cycles after the last submission (normal start latency < 20 ms)",
        "the shutdown window ends at the last cleanup-done of the long-cleanup payload; adopts after that are outside the statement",
        "an asyncio payload executed from the trio thread does not adopt trio payloads (blocking submission into a blocked trio thread: known finding)",
    ],
    "shard_timeout": {"quick": 900, "thorough": 3600},
}
ARGS = [([], {}), ([1], {}), ([], {"k": 1}), ([1, "two"], {"k": 1}), ([[1, 2]], {"opt": {"x": 1}}), ([None, 0, ""], {}), ([], {"a": None, "b": [3]}),
        (["<grumpy>"], {}), ([1, "<grumpy>"], {"k": 1}),
        # keywords called like things the runtime itself has names for: they are the payload's all the same
        ([], {"func": 1}), ([2], {"args": [3], "kwargs": {"x": 1}}), ([], {"runner": 2, "fn": 3, "target": 4, "name": 5})]  # <grumpy>: an object whose repr() raises


def plan(tier, seed):
    if tier == "thorough":
        return [dict(seed=seed, shard=i, n=70, kind="steady") for i in range(12)] + [dict(seed=seed, shard="w%d" % i, n=40, kind="window") for i in range(4)] + \
            [dict(seed=seed, shard="known", n=1, kind="known"), dict(seed=seed, shard="redecorated", n=2, kind="redecorated"), dict(seed=seed, shard="again0", n=40, kind="again"), dict(seed=seed, shard="again1", n=40, kind="again"), dict(seed=seed, shard="kept", n=30, kind="kept")] + [dict(seed=seed, shard="idle%d" % i, n=20, kind="idle") for i in range(2)] + \
        [dict(seed=seed, shard="storm%d" % i, n=25, kind="storm") for i in range(2)]
    return [dict(seed=seed, shard="idle", n=6, kind="idle"), dict(seed=seed, shard="storm", n=6, kind="storm")] + [dict(seed=seed, shard=i, n=6, kind="steady") for i in range(12)] + [dict(seed=seed, shard="w%d" % i, n=5, kind="window") for i in range(4)] + \
        [dict(seed=seed, shard="known", n=1, kind="known"), dict(seed=seed, shard="redecorated", n=2, kind="redecorated"),
         dict(seed=seed, shard="again0", n=3, kind="again"), dict(seed=seed, shard="again1", n=3, kind="again"), dict(seed=seed, shard="kept", n=4, kind="kept")]


def leaf(rnd, pid, flavour=None, gate=False):
    flavour = flavour or rnd.choice(common.FLAVOURS)
    a, k = rnd.choice(ARGS)
    program = rnd.choice([[["beat", 0.02, None]], [["sleep", 0.01]], [], [["beat", 0.01, 3]]])
    if flavour == "threading" and program and program[0][0] == "beat" and program[0][2] is None:
        program = [["block"]]
    if gate:
        program = [["gate", "g-" + pid, 3.0]] + program
    # the payload as a plain function, a lambda, a wrapped function, a partial, a callable object or a bound method
    how = rnd.choice(["function", "function", "function", "lambda", "wrapped", "partial", "object", "method", "prefixed", "marked", "unhashable", "nomodule"])
    return {"id": pid, "flavour": flavour, "program": program, "args": a, "kwargs": k, "cleanup": {"kind": "none"}, "callable": how}


def gen_steady(rnd, spec):
    delay = rnd.choice([0.02, 0.05, 0.1])
    gen = {"accept_delay": delay, "payloads": [], "services": [], "grace": 0.2}
    script = [["wait_running", 10]]
    expected = []  # ids that must have started exactly once at quiescence
    dropped = []  # services dropped on purpose: at most once
    n = [0]

    def new_id(prefix="p"):
        n[0] += 1
        return "%s%d" % (prefix, n[0])

    late = []
    for _ in range(rnd.randint(2, 14)):
        how = rnd.choice(["queued", "outside", "outside_gated", "late", "carried", "burst", "chain", "executed_adopts"])
        if how == "queued":
            p = leaf(rnd, new_id())
            p["when"] = "queued"
            if rnd.random() < 0.25:
                # the same callable adopted two or three times (without arguments): that many runs
                p["repeat"], p["args"], p["kwargs"], p["program"] = rnd.choice([2, 3]), [], {}, [["sleep", 0.01]]
            gen["payloads"].append(p)
            expected.append(p["id"])
        elif how in ("outside", "late"):
            p = leaf(rnd, new_id())
            gen["payloads"].append(p)
            (late if how == "late" else script).append(["adopt", p["id"]])
            expected.append(p["id"])
        elif how == "outside_gated":
            p = leaf(rnd, new_id(), gate=True)
            gen["payloads"].append(p)
            script += [["adopt", p["id"]], ["open_gate", "g-" + p["id"]]]
            expected.append(p["id"])
        elif how == "carried":
            child = leaf(rnd, new_id())
            via = rnd.choice(common.FLAVOURS)
            carrier = {"id": new_id("carrier"), "flavour": via, "when": rnd.choice(["queued", "running"]), "cleanup": {"kind": "none"},
                       "program": [["sleep", rnd.choice([0.0, 0.01, 0.05])], ["adopt", child["id"]]] + ([["block"]] if via == "threading" else [["beat", 0.02, None]])}
            gen["payloads"] += [child, carrier]
            if carrier["when"] == "running":
                script.append(["adopt", carrier["id"]])
            expected += [child["id"], carrier["id"]]
        elif how == "burst":
            via = rnd.choice(common.FLAVOURS)
            kids = [leaf(rnd, new_id(), flavour=rnd.choice([via, via, rnd.choice(common.FLAVOURS)])) for _ in range(rnd.randint(2, 6))]
            carrier = {"id": new_id("burst"), "flavour": via, "when": "queued", "cleanup": {"kind": "none"},
                       "program": [["adopt", k["id"]] for k in kids] + ([["block"]] if via == "threading" else [["beat", 0.02, None]])}
            gen["payloads"] += kids + [carrier]
            expected += [k["id"] for k in kids] + [carrier["id"]]
        elif how == "chain":
            c = leaf(rnd, new_id())
            b = {"id": new_id("chain"), "flavour": rnd.choice(common.FLAVOURS), "cleanup": {"kind": "none"}, "program": [["adopt", c["id"]], ["sleep", 0.01]]}
            a = {"id": new_id("chain"), "flavour": rnd.choice(common.FLAVOURS), "cleanup": {"kind": "none"}, "program": [["sleep", 0.01], ["adopt", b["id"]]], "when": "queued"}
            gen["payloads"] += [c, b, a]
            expected += [c["id"], b["id"], a["id"]]
        else:  # an executed payload that adopts; executed from the outside thread only
            child = leaf(rnd, new_id())
            ex = {"id": new_id("exec"), "flavour": rnd.choice(common.FLAVOURS), "executed": True, "cleanup": {"kind": "none"},
                  "program": [["adopt", child["id"]], ["return", "str"]]}
            gen["payloads"] += [child, ex]
            script.append(["execute", ex["id"]])
            expected.append(child["id"])
    # services
    for _ in range(rnd.randint(0, 6)):
        flavour = rnd.choice(common.FLAVOURS)
        sid = new_id("s")
        s = {"id": sid, "flavour": flavour, "program": rnd.choice([[["beat", 0.02, None]], [["sleep", 0.01]]]) if flavour != "threading" else [["block"]]}
        # the class of the service: decorated directly, a plain subclass of that, one whose instances are falsy (an empty
        # container), or a subclass that is declared a service once more - of the same or of the other coroutine flavour
        s["shape"] = rnd.choice(["plain", "plain", "subclass", "falsy", "redecorated", "valued", "valued", "own_init", "own_init"])
        if s["shape"] == "redecorated" and flavour in common.COROUTINE and rnd.random() < 0.5:
            s["base_flavour"] = "trio" if flavour == "asyncio" else "asyncio"
        where = rnd.choice(["before", "driver", "late", "inside"])
        if s["shape"] == "redecorated":
            # created before the accept loop exists; with the loop running the base decorator's registration is visible
            # to it for an instant - the recorded finding C03/redecorated-service-base-unit-started (kind=redecorated)
            where = "before"
        if where == "before":
            s["create"] = "before"
        elif where == "driver":
            script.append(["service", sid])
        elif where == "late":
            late.append(["service", sid])
        else:
            via = rnd.choice(common.FLAVOURS)
            gen["payloads"].append({"id": new_id("maker"), "flavour": via, "when": "queued", "cleanup": {"kind": "none"},
                                    "program": [["sleep", 0.01], ["service", sid]] + ([["block"]] if via == "threading" else [["beat", 0.02, None]])})
        gen["services"].append(s)
        expected.append("svc:" + sid)
    # replacement rounds: a finished service is dropped and collected, a new one created in the same polling cycle
    for r in range(rnd.choice([0, 0, 1, 2, 3])):
        flavour = rnd.choice(["threading", "asyncio"])
        old, new = new_id("s"), new_id("s")
        gen["services"].append({"id": old, "flavour": flavour, "program": [["sleep", 0.005]]})
        gen["services"].append({"id": new, "flavour": flavour, "program": [["sleep", 0.005]]})
        late += [["service", old], ["sleep", delay * 2 + 0.1], ["drop_service", old], ["service", new]]
        # the old one is dropped 0.1 s + two polling periods after its creation: normally it has been started by then, but on a
        # starved machine the accept loop may not have polled yet, and a service that is collected before the loop saw it
        # was never a live service - so it is only required not to start twice (seen as a false alarm under load)
        expected += ["svc:" + new]
        dropped.append("svc:" + old)
    # several threads registering payloads and creating services at the same time before the runtime starts
    if rnd.random() < 0.4:
        gen["prestart_threads"] = rnd.choice([2, 3, 4])
        for _ in range(rnd.randint(4, 12)):
            p = leaf(rnd, new_id("early"))
            p["when"] = "queued"
            gen["payloads"].append(p)
            expected.append(p["id"])
    if rnd.random() < 0.3:
        # payloads queued on another runner object of the same process that is never started
        gen["idle_runner"] = []
        for i in range(rnd.randint(1, 4)):
            p = leaf(rnd, "idle_runner_%d" % i)
            p["program"] = [["sleep", 0.01]]
            gen["payloads"].append(p)
            gen["idle_runner"].append(p["id"])
    script.append(["sleep", delay * 12])  # 10+ polling cycles
    script += late
    script.append(["sleep", 0.35 + delay * 14])
    script.append(["quiesce", 0.5, 10.0])
    gen["script"] = script
    return {"watchdog": 40, "inject": common.inject_conf(rnd, 0.7), "generations": [gen], "meta": {"kind": "steady", "expected": expected, "dropped": dropped}}


def gen_kept(rnd, spec):
    """Services started by one runner stay alive (the application keeps them) while that runtime is shut down and a fresh
    runner accepts in the same process: they have been started - once."""
    first = {"accept_delay": 0.03, "keep_instances": True, "payloads": [], "services": [], "grace": 0.15, "script": [["wait_running", 10]]}
    for i in range(rnd.randint(2, 5)):
        flavour = rnd.choice(common.FLAVOURS)
        program = rnd.choice([[["beat", 0.01, 3]], [["sleep", 0.01]]] + ([[["beat", 0.02, None]]] if flavour != "threading" else []))
        s = {"id": "kept%d" % i, "flavour": flavour, "program": program, "create": rnd.choice(["before", "after"]), "shape": rnd.choice(["plain", "plain", "subclass", "valued"])}
        first["services"].append(s)
        if s["create"] == "after":
            first["script"].append(["service", s["id"]])
    first["script"] += [["sleep", 0.2], ["shutdown"], ["expect_end", 8.0]]
    runs = [first]
    for g in range(rnd.randint(1, 2)):
        nxt = {"accept_delay": 0.03, "payloads": [{"id": "fresh%d" % g, "flavour": rnd.choice(common.FLAVOURS), "when": "queued", "program": [["sleep", 0.01]], "cleanup": {"kind": "none"}}],
               "services": [{"id": "later%d" % g, "flavour": rnd.choice(common.FLAVOURS), "program": [["beat", 0.01, 3]], "create": "before"}], "grace": 0.15,
               "script": [["wait_running", 10], ["sleep", 0.3], ["shutdown"], ["expect_end", 8.0]]}
        runs.append(nxt)
    return {"watchdog": 40, "inject": None, "generations": runs, "meta": {"kind": "kept", "kept": [s["id"] for s in first["services"]]}}


def judge_kept(case, run, result):
    trouble = common.harness_trouble(run)
    if trouble:
        result.inconc(trouble)
        return []
    if common.watchdog_fired(run):
        return [("a run with services kept from an earlier runtime did not end: %s" % common.classify_hang(run), None)]
    problems = []
    n_runs = len([e for e in run.events if e["kind"] == "accept-ended"])
    if n_runs != len(case["generations"]):
        result.inconc("only %d of %d runs ended" % (n_runs, len(case["generations"])))
        return []
    for sid in case["meta"]["kept"]:
        starts = [e for e in run.events if e["kind"] == "start" and e.get("pid") == "svc:" + sid]
        if len(starts) != 1:
            problems.append(("service %s, started by the first runtime and kept alive, was started %d times over %d runs of fresh runners in one process, expected exactly once"
                             % (sid, len(starts), n_runs), None))
        else:
            result.count("services_kept_across_runs_of_fresh_runners_started_exactly_once")
    for g in range(1, len(case["generations"])):
        starts = [e for e in run.events if e["kind"] == "start" and e.get("pid") == "svc:later%d" % (g - 1)]
        if len(starts) != 1:
            problems.append(("service later%d of run %d was started %d times" % (g - 1, g, len(starts)), None))
    return problems


def gen_again(rnd, spec):
    """The steady scenario in the *second* run of a runner that has been shut down once."""
    case = gen_steady(rnd, spec)
    first = {"accept_delay": 0.03, "payloads": [{"id": "warmup", "flavour": rnd.choice(common.FLAVOURS), "when": "queued", "program": [["sleep", 0.01]], "cleanup": {"kind": "none"}}],
             "services": [], "grace": 0.15, "script": [["wait_running", 10], ["sleep", 0.1], ["shutdown"], ["expect_end", 8.0]]}
    second = case["generations"][0]
    second["reuse_runner"] = True
    case["generations"] = [first, second]
    case["meta"]["judge_gen"] = 1
    case["meta"]["again"] = True
    return case


def gen_window(rnd, spec):
    """Adoption racing with a shutdown that is kept in its cleanup phase by a long shielded cleanup."""
    gen = {"accept_delay": 0.03, "payloads": [], "services": [], "grace": 0.3}
    dur = rnd.choice([0.3, 0.5])
    gen["payloads"].append({"id": "slow", "flavour": "trio", "when": "queued", "program": [["block"]], "cleanup": {"kind": "shielded", "dur": dur}})
    script = [["wait_running", 10], ["sleep", 0.05]]
    expected_window = []
    # payloads whose cleanup adopts a successor while the runtime shuts down (from inside each loop thread)
    for i in range(rnd.randint(0, 3)):
        fl = rnd.choice(common.COROUTINE)
        succ = leaf(rnd, "succ%d" % i, flavour=rnd.choice(common.FLAVOURS))
        gen["payloads"].append(succ)
        gen["payloads"].append({"id": "hand%d" % i, "flavour": fl, "when": "queued", "program": [["block"]], "handover": succ["id"],
                                "cleanup": {"kind": "none"}})
        expected_window.append(succ["id"])
    # outside threads adopting during the window
    for t in range(rnd.randint(1, 3)):
        ops = [["wait_event", "cancelled", "slow", 5.0]]
        for j in range(rnd.randint(2, 8)):
            p = leaf(rnd, "w%d_%d" % (t, j))
            gen["payloads"].append(p)
            ops += [["adopt", p["id"]], ["sleep", rnd.choice([0.0, 0.01, 0.03])]]
            expected_window.append(p["id"])
        script.append(["thread", ops])
    inject = common.inject_conf(rnd, 0.7)
    if rnd.random() < 0.4 or spec.get("case_index") == 0:
        # somebody keeps adopting until the run call has ended, and the last statements of the closing are stretched
        script.append(["thread", [["wait_event", "cancelled", "slow", 5.0], ["adopt_stream", rnd.choice(common.FLAVOURS), rnd.choice([0.0005, 0.002])]]])
        inject = inject or {"seed": rnd.randint(0, 10**6), "p_yield": 0.2, "p_sleep": 0.0}
        inject["hot"] = {"MetaRunner._manage_runners": 0.05, "MetaRunner._aclose_runners": 0.05}
    trigger = rnd.choice(["shutdown", "shutdown", "fail"])
    if trigger == "shutdown":
        script.append(["shutdown"])
    else:
        gen["payloads"].append({"id": "trigger", "flavour": rnd.choice(common.FLAVOURS), "program": [["raise", "LookupError"]], "cleanup": {"kind": "none"}})
        script.append(["adopt", "trigger"])
    script.append(["expect_end", 8.0])
    gen["script"] = script
    return {"watchdog": 40, "inject": inject, "generations": [gen], "meta": {"kind": "window", "window": expected_window}}


def gen_idle(rnd, spec):
    """Nothing keeps the asyncio loop busy: a submission must wake it up by itself - also when the submitting
    thread drives an event loop of its own."""
    gen = {"accept_delay": 0.05, "payloads": [], "services": [], "grace": 0.2}
    expected = []
    gen["payloads"].append({"id": "tblock", "flavour": "trio", "when": "queued", "program": [["block"]], "cleanup": {"kind": "none"}})
    expected.append("tblock")
    script = [["wait_running", 10], ["sleep", 0.15]]
    for i in range(rnd.randint(1, 3)):
        kids = []
        for j in range(rnd.randint(1, 3)):
            kid = leaf(rnd, "idle%d_%d" % (i, j), flavour="asyncio")
            kid["program"] = rnd.choice([[["sleep", 0.01]], [["block"]]])
            gen["payloads"].append(kid)
            kids.append(kid["id"])
            expected.append(kid["id"])
        how = rnd.choice(["foreign_loop", "foreign_loop", "outside", "thread"])
        if how == "foreign_loop":
            gen["payloads"].append({"id": "foreign%d" % i, "flavour": "threading", "cleanup": {"kind": "none"},
                                    "program": [["sleep", 0.05], ["private_loop_adopt", kids, 0.3]]})
            script.append(["adopt", "foreign%d" % i])
            expected.append("foreign%d" % i)
        elif how == "thread":
            gen["payloads"].append({"id": "tcar%d" % i, "flavour": "threading", "cleanup": {"kind": "none"},
                                    "program": [["sleep", 0.05]] + [["adopt", k] for k in kids]})
            script.append(["adopt", "tcar%d" % i])
            expected.append("tcar%d" % i)
        else:
            script += [["adopt", k] for k in kids]
        script.append(["sleep", 0.2])
    script += [["sleep", 0.6], ["quiesce", 0.5, 10.0]]
    gen["script"] = script
    return {"watchdog": 30, "inject": common.inject_conf(rnd, 0.5), "generations": [gen], "meta": {"kind": "steady", "expected": expected, "idle": True}}


def gen_storm(rnd, spec):
    """Many services created from several threads while the accept loop polls quickly."""
    gen = {"accept_delay": rnd.choice([0.01, 0.02]), "payloads": [], "services": [], "grace": 0.2}
    expected = []
    script = [["wait_running", 10]]
    n = 0
    for t in range(rnd.randint(2, 3)):
        ops = []
        for j in range(rnd.randint(20, 45)):
            n += 1
            flavour = rnd.choice(common.FLAVOURS)
            sid = "st%d" % n
            gen["services"].append({"id": sid, "flavour": flavour, "program": rnd.choice([[["sleep", 0.005]], [["beat", 0.05, 3]]])})
            ops.append(["service", sid])
            if rnd.random() < 0.3:
                ops.append(["sleep", rnd.choice([0.0, 0.002, 0.01])])
            if rnd.random() < 0.15 and j > 3:
                ops.append(["drop_service", "st%d" % (n - 2)])  # units are collected concurrently as well
            expected.append("svc:" + sid)
        script.append(["thread", ops])
    dropped = {op[1] for step in script if step[0] == "thread" for op in step[1] if op[0] == "drop_service"}
    expected = [e for e in expected if e[4:] not in dropped]  # a dropped service may or may not have been started
    script += [["sleep", 1.2], ["quiesce", 0.5, 10.0]]
    gen["script"] = script
    conf = common.inject_conf(rnd, 1.0)
    conf["p_yield"] = 0.5
    return {"watchdog": 40, "inject": conf, "generations": [gen], "meta": {"kind": "steady", "expected": expected, "storm": True}}


def gen_known(rnd, spec):
    """The recorded finding: adopt(flavour=trio) on the asyncio thread while the trio thread is blocked in execute."""
    gen = {"accept_delay": 0.03, "payloads": [], "services": [], "grace": 0.2}
    gen["payloads"].append({"id": "kid", "flavour": "trio", "program": [["sleep", 0.01]], "cleanup": {"kind": "none"}})
    gen["payloads"].append({"id": "inner", "flavour": "asyncio", "executed": True, "program": [["adopt", "kid"], ["return", "str"]], "cleanup": {"kind": "none"}})
    gen["payloads"].append({"id": "outer", "flavour": "trio", "program": [["sleep", 0.05], ["execute", "inner"], ["beat", 0.02, None]], "cleanup": {"kind": "none"}})
    gen["script"] = [["wait_running", 10], ["adopt", "outer"], ["sleep", 1.0], ["quiesce", 0.5, 10.0]]
    return {"watchdog": 6, "inject": None, "generations": [gen], "meta": {"kind": "known", "expected": ["kid", "outer"]}}


def context_problem(start, homes):
    flavour = start["flavour"]
    if flavour == "asyncio":
        if start["lib"] != "asyncio" or not start["main"] or start["loop"] is None:
            return "asyncio payload started outside the runtime's event loop thread (lib=%s main=%s)" % (start["lib"], start["main"])
        if homes.setdefault("loop", start["loop"]) != start["loop"]:
            return "asyncio payload started in a different event loop"
    elif flavour == "trio":
        if start["lib"] != "trio" or start["token"] is None or start["main"]:
            return "trio payload started outside the trio thread (lib=%s main=%s)" % (start["lib"], start["main"])
        if homes.setdefault("token", start["token"]) != start["token"] or homes.setdefault("trio_thread", start["th"]) != start["th"]:
            return "trio payload started in a different trio run / thread"
    else:
        if start["lib"] is not None or start["loop"] is not None or start["token"] is not None:
            return "thread payload started inside an event loop (lib=%s)" % start["lib"]
    return None


def judge(case, run, result):
    trouble = common.harness_trouble(run)
    kind = case["meta"]["kind"]
    if trouble:
        result.inconc(trouble)
        return []
    G = case["meta"].get("judge_gen", 0)
    gen = case["generations"][G]
    specs = {p["id"]: p for p in gen["payloads"]}
    specs.update({"svc:" + s["id"]: s for s in gen["services"]})
    problems = []
    if gen.get("prestart_threads"):
        result.count("scenarios_with_concurrent_registration_before_start")
    if case["meta"].get("again") and run.first("running-timeout", gen=G) and run.first("accept-ended", gen=0):
        return [("in its second run (after one shutdown) the runner never reported that it accepts services and payloads: nothing created for "
                 "that run can be started", None)]
    if common.watchdog_fired(run):
        mech = common.classify_hang(run)
        if mech == "adopt-trio-blocks-on-busy-trio-thread":
            return [("adopt(flavour=trio) on the asyncio thread never returned: the trio thread is blocked in execute(flavour=asyncio)", "C03/adopt-trio-blocks-on-busy-trio-thread")]
        open_adopts = [e["pid"] for e in run.of("call", op="adopt") if not run.of("return", op="adopt", pid=e["pid"]) and not run.of("raised", op="adopt", pid=e["pid"])]
        if open_adopts:
            return [("adopt of %s never returned: %s" % (open_adopts, run.stacks[-1500:]), None)]
        result.inconc("watchdog fired: %s" % run.stacks[-1200:])
        return []
    if kind == "known":
        result.count("scenario_of_a_recorded_finding_completed_without_it")
        return []
    homes = {}
    # adopt calls: None, no exception, and not waiting for the payload
    for e in run.of("return", op="adopt", gen=G):
        if not e["value_is_none"]:
            problems.append(("adopt of %s returned a value other than None" % e["pid"], None))
    for e in run.of("gate-timeout", gen=G):
        problems.append(("adopt of %s only returned after its payload had finished waiting: adopt waits for the payload" % e["pid"], None))
    if kind == "steady":
        quiet = run.first("quiescent", gen=G)
        if quiet is None:
            result.inconc("scenario did not reach quiescence")
            return []
        for e in run.of("raised", op="adopt", gen=G):
            problems.append(("adopt of %s by %s raised %s(%s) while the runtime was running" % (e["pid"], e["by"], e["exc"], e["msg"]), None))
        for pid in case["meta"]["expected"]:
            starts = [e for e in run.of("start", gen=G, pid=pid)]
            before = [e for e in starts if e["seq"] < quiet["seq"]]
            sp = specs[pid]
            what = "service" if pid.startswith("svc:") else "payload"
            times = sp.get("repeat", 1)
            if times > 1:
                result.count("payloads_adopted_repeatedly_before_start")
            if len(starts) != times or len(before) != times:
                problems.append(("%s %s (%s) was started %d time(s) (%d at quiescence), expected exactly %s"
                                 % (what, pid, sp["flavour"], len(starts), len(before), "once" if times == 1 else "%d times: it was adopted %d times" % (times, times)), None))
                continue
            st = starts[0]
            if st["flavour"] != sp["flavour"]:
                problems.append(("%s %s requested flavour %s, ran as %s" % (what, pid, sp["flavour"], st["flavour"]), None))
            ctx = context_problem(st, homes)
            if ctx:
                problems.append(("%s %s: %s" % (what, pid, ctx), None))
            if sp.get("callable") in ("prefixed", "marked") and sp["flavour"] in common.COROUTINE and not pid.startswith("svc:"):
                # a plain callable that does something itself before it hands out its coroutine: calling it is the start
                for call in [e for e in run.of("step", gen=G, pid=pid) if e.get("n") == -1]:
                    why = context_problem(dict(call, flavour=sp["flavour"]), homes)
                    if why:
                        problems.append(("%s %s is a plain callable handing out its coroutine; it was called outside the runner of its flavour: %s" % (what, pid, why), None))
                    result.count("plain_callables_called_inside_their_runner")
            if not pid.startswith("svc:") and not st["args_ok"]:
                problems.append(("payload %s did not receive exactly the supplied arguments %r %r (got %d positional, keywords %s)"
                                 % (pid, sp.get("args"), sp.get("kwargs"), st["nargs"], st["kwkeys"]), None))
            result.count("starts_exactly_once_%s" % sp["flavour"])
            if pid.startswith("svc:"):
                result.count("services_started_exactly_once")
                result.count("services_of_shape_%s_started_exactly_once" % sp.get("shape", "plain"))
        for pid in case["meta"].get("dropped", []):
            starts = run.of("start", gen=G, pid=pid)
            if len(starts) > 1:
                problems.append(("service %s (dropped after a while) was started %d times" % (pid, len(starts)), None))
            result.count("dropped_services_%s" % ("started_once" if starts else "collected_before_the_loop_saw_them"))
        for pid in gen.get("idle_runner", []):
            if run.of("queued-on-idle-runner", gen=G, pid=pid):
                result.count("payloads_queued_on_a_runner_that_is_never_started")
                if run.of("start", pid=pid):
                    problems.append(("payload %s was queued on a second runner object that was never started, and was started all the same - by the runtime of the other runner" % pid, None))
        result.count("adoptions_judged", len(case["meta"]["expected"]))
        if case["meta"].get("again"):
            result.count("scenarios_in_the_second_run_of_the_same_runner")
            # what was queued for the first run ran in the first run: it is not started once more when the runner accepts again
            earlier = [e for e in run.of("start") if e.get("pid") == "warmup"]
            if len(earlier) != 1:
                problems.append(("payload warmup, queued before the first run of the runner, was started %d times over the two runs (generations %r)"
                                 % (len(earlier), [e.get("gen") for e in earlier]), None))
        if case["meta"].get("idle"):
            result.count("scenarios_with_idle_asyncio_loop")
        if case["meta"].get("storm"):
            result.count("service_storms")
            ended = run.first("accept-ended", gen=G)
            quiet_ = run.first("quiescent", gen=G)
            if ended is not None and quiet_ is not None and ended["seq"] < quiet_["seq"]:
                problems.append(("the runtime ended by itself (%s: %s, cause chain %s) while services were being created from several threads"
                                 % (ended.get("exc"), ended.get("msg"), ended.get("reach")), None))
        if run.of("gate-passed", gen=G):
            result.count("gated_adopts_returned_before_payload_released", len(run.of("gate-passed", gen=G)))
        if any(p["id"].startswith("burst") for p in gen["payloads"]):
            result.count("scenarios_with_bursts")
        if run.of("call", op="drop_service", gen=G) or any(op[0] == "drop_service" for op in gen["script"]):
            result.count("scenarios_with_replaced_services")
    else:
        trigger = run.first("call", gen=G, op="shutdown") or run.first("fail", gen=G, pid="trigger")
        slow_done = run.first("cleanup-done", gen=G, pid="slow")
        if trigger is None or slow_done is None:
            result.count("window_scenarios_without_window")
            return problems
        in_window = 0
        for call in run.of("call", op="adopt", gen=G):
            if call["seq"] < trigger["seq"]:
                continue
            outcome = [e for e in run.events if e.get("op") == "adopt" and e.get("pid") == call["pid"] and e["kind"] in ("return", "raised") and e["seq"] > call["seq"]]
            ended = run.first("accept-ended", gen=G)
            if outcome and outcome[0]["seq"] > slow_done["seq"] and ended is not None and call["seq"] < ended["seq"]:
                # in the last moments of the closing, after the cleanups: still no reason for adopt to raise
                result.count("adopts_in_the_last_moments_of_the_closing")
                if outcome[0]["kind"] == "raised":
                    problems.append(("adopt(%s) by %s raised %s(%s) in the last moments of the runtime's closing (after the payloads' cleanup, before the run call ended)"
                                     % (call["pid"], call["by"], outcome[0]["exc"], outcome[0]["msg"]), None))
                continue
            if not outcome or outcome[0]["seq"] > slow_done["seq"]:
                continue
            in_window += 1
            if outcome[0]["kind"] == "raised":
                problems.append(("adopt(%s, flavour=%s) by %s raised %s(%s) while the runtime was still finishing its payloads' cleanup"
                                 % (call["pid"], specs.get(call["pid"], {}).get("flavour", "?"), call["by"], outcome[0]["exc"], outcome[0]["msg"]), None))
            result.count("adopts_in_shutdown_window_%s" % ("inside" if call["by"].startswith("hand") else "outside"))
        for pid in case["meta"]["window"]:
            starts = run.of("start", gen=G, pid=pid)
            if len(starts) > 1:
                problems.append(("payload %s adopted during shutdown was started %d times" % (pid, len(starts)), None))
            result.count("window_payloads_%s" % ("started" if starts else "discarded"))
        result.count("window_adopts_judged", in_window)
    return problems[:5]


def execute(case, result):
    run = common.run_and_observe(case, result)
    if case["meta"].get("kind") == "kept":
        return judge_kept(case, run, result), run
    return judge(case, run, result), run


def run_redecorated_shard(spec, result):
    """Forced schedule (vlib/rt/redecorated.py): the accept loop polls between the two registrations of a service class
    that is decorated twice.  On the pinned tree this is the recorded finding C03/redecorated-service-base-unit-started."""
    import json
    import subprocess

    for i, variant in enumerate(("same", "moved")):
        if spec.get("only_case") is not None and spec["only_case"] != i:
            continue
        case = {"kind": "redecorated", "variant": variant}
        try:
            proc = subprocess.run([core.PYTHON, "-m", "vlib.rt.redecorated", variant], capture_output=True, text=True, timeout=90)
            out = json.loads(proc.stdout.strip().splitlines()[-1])
        except Exception as err:  # noqa: B902
            result.inconc("forced schedule %s did not run: %r" % (case, err))
            continue
        result.case(dict(case, observed=out), nontrivial=True, key=variant)
        if out.get("inconclusive") or out.get("registrations") != 2:
            result.inconc("forced schedule %s: %s" % (case, out.get("inconclusive") or "the class was not registered twice: %r" % (out,)))
            continue
        result.count("forced_redecorated_schedules_checked")
        if out["started"] != out["want"] or out["accept"] != "returned":
            clean = {k: v for k, v in spec.items() if k != "only_case"}
            result.violation("a service class decorated twice (%s flavour), instance created while the accept loop polls between the two "
                             "registrations: run() started as %r, expected %r (accept %s)" % (variant, out["started"], out["want"], out["accept"]),
                             dict(case, observed=out), "C03/redecorated-service-base-unit-started", spec=clean, case_id=i)


def run_shard(spec):
    result = core.Result()
    if spec.get("kind") == "redecorated":
        run_redecorated_shard(spec, result)
        return result
    only = spec.get("only_case")
    gen = {"again": gen_again, "steady": gen_steady, "window": gen_window, "known": gen_known, "idle": gen_idle, "storm": gen_storm, "kept": gen_kept}[spec["kind"]]
    for i in range(spec["n"]):
        if only is not None and i != only:
            continue
        case = gen(core.rng(PID, spec["seed"], spec["shard"], i), spec)
        problems, run = execute(case, result)
        result.case(common.sample(case, run, **{"kind": spec["kind"], "payloads": len(case["generations"][-1]["payloads"]), "services": len(case["generations"][-1]["services"])}),
                    nontrivial=len(run.of("start")) >= 3, key=common.shape(case))
        for what, mech in problems:
            clean = {k: v for k, v in spec.items() if k != "only_case"}
            result.violation(what, {"scenario": case, "run": run.witness()}, mech, spec=clean, case_id=i)
    return result


def finish(total, tier):
    need = ["adoptions_judged", "starts_exactly_once_asyncio", "starts_exactly_once_trio", "starts_exactly_once_threading", "services_started_exactly_once",
            "gated_adopts_returned_before_payload_released", "scenarios_with_idle_asyncio_loop", "service_storms", "scenarios_with_bursts", "scenarios_with_replaced_services",
            "window_adopts_judged", "adopts_in_shutdown_window_inside", "adopts_in_shutdown_window_outside",
            "scenarios_with_concurrent_registration_before_start", "forced_redecorated_schedules_checked",
            "scenarios_in_the_second_run_of_the_same_runner", "payloads_queued_on_a_runner_that_is_never_started", "adopts_in_the_last_moments_of_the_closing", "plain_callables_called_inside_their_runner", "services_kept_across_runs_of_fresh_runners_started_exactly_once"]
    need += ["services_of_shape_%s_started_exactly_once" % k for k in ("plain", "subclass", "falsy", "redecorated", "valued", "own_init")]
    need += ["payloads_adopted_repeatedly_before_start"]
    for name in need:
        if not total.counters.get(name) and not total.violations:
            total.inconc("monitor never observed: " + name)
