"""C11 - coroutine payloads of one flavour never run in parallel.

Monitor (E1): every payload step logs its thread id and the identity of the running asyncio
loop / trio run (token); a non-atomic enter/exit counter per flavour inside the payloads'
synchronous sections detects two payloads between checkpoints at the same instant;
heartbeats of both loops are counted while thread payloads block.
"""
from vlib import core
from vlib.rt import common

PID = "C11"

META = {
    "level": "exploration",
    "engine": "E1 runtime scenario engine",
    "rule": (
        "seeded random scenarios: per flavour 1-6 payloads that are adopted (queued, after start, from payloads of "
        "every flavour, from a thread payload that drives a private event loop), services (created before / after "
        "start / inside payloads) or executed (from outside threads, thread payloads and payloads of the other "
        "coroutine flavour), each alternating synchronous sections (overlap detector, context probe) and "
        "checkpoints; 0-4 thread payloads blocking for 0.6 s (waiting, or - 10 % of the scenarios - computing in a pure Python loop), a thread payload with a trio run of its own whose worker thread calls execute(flavour=trio), sometimes a crowd of 40-130 of them while coroutine payloads adopt more, adoption of thread payloads while thread creation fails (injected fault); payloads parked on an awaitable only they reference while another thread runs a garbage collection; foreign threads adopting coroutine payloads while a shielded trio cleanup keeps the runtime in its shutdown phase; the runtime in a thread of its own while the main thread, inside execute(), is hit by SIGINT; a FactoryPool service (shipped, trio flavour) whose child factory reports where it runs; a thread payload failing while another still blocks (the loops run on until they are cancelled); line-level delay injection. The identity check "
        "(one thread + one loop / one trio run per flavour over the whole run) is deterministic, the overlap "
        "detector a probabilistic second line. Non-trivial = both flavours had >= 2 payloads; distinct by shape."
    ),
    "assumptions": [
        "executed thread payloads run in their caller's thread (C10), only adopted and service thread payloads must stay off the two loop threads",
        "'blocking never stalls coroutine payloads' is restated in events: while a thread payload blocks 0.6 s each loop's heartbeat (period 10 ms) advances at least twice and, for the 1.3 s blockers, never pauses longer than 0.6 s - unless a reference event loop of the harness beating every 10 ms paused 0.1 s or more in the same window, or the scheduler statistics show that the loop's thread waited for a CPU (contended machine); synchronous execute calls between the loops legitimately hold a loop for the ~0.1 s the executed payload takes",
    ],
    "shard_timeout": {"quick": 900, "thorough": 3600},
}


def plan(tier, seed):
    if tier == "thorough":
        return [dict(seed=seed, shard=i, n=70) for i in range(16)] + [dict(seed=seed, shard="daemon", kind="daemon", n=2)]
    return [dict(seed=seed, shard=i, n=6) for i in range(16)] + [dict(seed=seed, shard="daemon", kind="daemon", n=2)]


def worker_program(rnd, forever=True, adoptees=None):
    body = []
    for _ in range(rnd.randint(2, 6)):
        if adoptees and rnd.random() < 0.3:
            body.append(["crit_adopt", adoptees.pop(), rnd.choice([300, 3000])])  # adopts in the middle of a section
        else:
            body.append(rnd.choice([["crit", rnd.choice([300, 3000, 20000])], ["ctx"]]))
        body.append(["sleep", rnd.choice([0, 0, 0.002, 0.01])])
    return body + ([["beat", 0.02, None]] if forever else [])


def gen_interrupted_execute(rnd, spec):
    """The runtime in a thread of its own; the main thread is inside execute(flavour=asyncio) when SIGINT arrives."""
    gen = {"accept_delay": 0.03, "services": [], "grace": 0.3, "ticker": True, "accept_in_thread": True,
           "payloads": [{"id": "heart_" + fl, "flavour": fl, "when": "queued", "program": [["ctx"], ["beat", 0.01, None]], "cleanup": {"kind": "none"}} for fl in common.COROUTINE]}
    gen["payloads"].append({"id": "xsig", "flavour": rnd.choice(["asyncio", "asyncio", "trio"]), "executed": True, "cleanup": {"kind": "sync", "dur": 0.0},
                            "program": [["ctx"], ["crit", 300], ["sleep", rnd.choice([0.4, 0.6])], ["crit", 300], ["return", "str"]]})
    gen["payloads"].append({"id": "other", "flavour": "asyncio", "when": "queued", "cleanup": {"kind": "none"},
                            "program": [["crit", 300], ["sleep", 0.005]] * 40 + [["beat", 0.02, None]]})
    gen["main_script"] = [["wait_running", 10], ["execute", "xsig"]]
    gen["script"] = [["wait_running", 10], ["sleep", rnd.choice([0.15, 0.25])], ["sigint"], ["sleep", 0.8], ["quiesce"]]
    gen["tags"] = ["interrupt_in_a_thread_waiting_in_execute"]
    return {"watchdog": 40, "inject": common.inject_conf(rnd, 0.5), "generations": [gen], "meta": {"direction": "none"}}


def gen_hogged_execute(rnd, spec):
    """A coroutine payload keeps its loop to itself for 1.3 s in one synchronous section while threads call execute() for that
    flavour: the executed payloads wait their turn and then run in that loop like everything else."""
    fl = {4: "asyncio", 5: "asyncio", 6: "trio"}.get(spec.get("shard") if spec.get("case_index") == 5 else None) or rnd.choice(["asyncio", "asyncio", "trio"])
    gen = {"accept_delay": 0.03, "services": [], "grace": 0.3, "ticker": True,
           "payloads": [{"id": "heart_" + f, "flavour": f, "when": "queued", "program": [["ctx"], ["beat", 0.01, None]], "cleanup": {"kind": "none"}} for f in common.COROUTINE]}
    gen["payloads"].append({"id": "hog", "flavour": fl, "when": "queued", "cleanup": {"kind": "none"},
                            "program": [["sleep", 0.05], ["ctx"], ["crit_hold", 1.3], ["beat", 0.02, None]]})
    gen["payloads"].append({"id": "other", "flavour": fl, "when": "queued", "cleanup": {"kind": "none"},
                            "program": [["crit", 300], ["sleep", 0.005]] * 30 + [["beat", 0.02, None]]})
    script = [["wait_running", 10]]
    for i in range(rnd.randint(1, 3)):
        gen["payloads"].append({"id": "xhog%d" % i, "flavour": fl, "executed": True, "cleanup": {"kind": "none"},
                                "program": [["ctx"], ["crit", 300], ["sleep", 0.01], ["crit", 300], ["return", "str"]]})
        if rnd.random() < 0.5:
            gen["payloads"].append({"id": "hcaller%d" % i, "flavour": "threading", "when": "queued", "cleanup": {"kind": "none"},
                                    "program": [["sleep", rnd.choice([0.1, 0.15, 0.25])], ["execute", "xhog%d" % i]]})
        else:
            script.append(["thread", [["sleep", rnd.choice([0.1, 0.15, 0.25])], ["execute", "xhog%d" % i]]])
    gen["script"] = script + [["sleep", 2.2], ["quiesce"]]
    gen["tags"] = ["execute_while_a_payload_keeps_the_loop_for_1.3_s"]
    return {"watchdog": 40, "inject": None, "generations": [gen], "meta": {"direction": "none"}}


def gen_case(rnd, spec):
    if (spec.get("case_index") == 5 and spec.get("shard") in (0, 1, 2, 3)) or rnd.random() < 0.03:
        return gen_interrupted_execute(rnd, spec)
    if (spec.get("case_index") == 5 and spec.get("shard") in (4, 5, 6)) or rnd.random() < 0.03:
        return gen_hogged_execute(rnd, spec)
    gen = {"accept_delay": rnd.choice([0.03, 0.05]), "payloads": [], "services": [], "grace": 0.2, "ticker": True}
    long_blocker = False
    script = [["wait_running", 10]]
    direction = rnd.choice(["asyncio_to_trio", "trio_to_asyncio"])
    for fl in common.COROUTINE:
        gen["payloads"].append({"id": "heart_" + fl, "flavour": fl, "when": "queued", "program": [["ctx"], ["beat", 0.01, None]], "cleanup": {"kind": "none"}})
    n = [0]

    def new(prefix="p"):
        n[0] += 1
        return "%s%d" % (prefix, n[0])

    for fl in common.COROUTINE:
        for _ in range(rnd.randint(1, 6)):
            how = rnd.choice(["queued", "outside", "carried", "service_before", "service_after", "service_inside", "exec_outside", "exec_thread", "exec_cross", "foreign_loop"])
            if how == "foreign_loop" and fl != "asyncio":
                how = "outside"
            if how == "exec_cross" and direction.split("_to_")[1] != fl:
                how = "exec_outside"
            kids = []
            if how in ("queued", "outside", "carried") and rnd.random() < 0.5:
                for _ in range(rnd.randint(1, 2)):
                    kid = {"id": new("kid"), "flavour": fl, "program": [["crit", 300], ["ctx"], ["sleep", 0.01], ["crit", 300]], "cleanup": {"kind": "none"}}
                    gen["payloads"].append(kid)
                    kids.append(kid["id"])
            p = {"id": new(), "flavour": fl, "program": worker_program(rnd, adoptees=kids), "cleanup": {"kind": "none"}}
            if not how.startswith("service"):
                # not necessarily a coroutine function: also plain callables that run a synchronous first section themselves
                p["callable"] = rnd.choice(["function", "function", "prefixed", "prefixed", "marked", "lambda", "wrapped", "partial", "object", "method"])
            if how == "queued":
                p["when"] = "queued"
                gen["payloads"].append(p)
            elif how == "outside":
                gen["payloads"].append(p)
                script.append(["adopt", p["id"]])
            elif how == "carried":
                via = rnd.choice(common.FLAVOURS)
                if via == "asyncio" and fl == "trio" and direction == "trio_to_asyncio":
                    via = "threading"  # no asyncio-thread submission into trio while trio may be blocked in execute
                gen["payloads"].append(p)
                gen["payloads"].append({"id": new("carrier"), "flavour": via, "when": "queued", "cleanup": {"kind": "none"},
                                        "program": [["sleep", 0.01], ["adopt", p["id"]]] + ([["sleep", 0.3]] if via == "threading" else [["beat", 0.02, None]])})
            elif how == "foreign_loop":
                gen["payloads"].append(p)
                gen["payloads"].append({"id": new("foreign"), "flavour": "threading", "when": "queued", "cleanup": {"kind": "none"},
                                        "program": [["sleep", 0.02], ["private_loop_adopt", [p["id"]], 0.3]]})
            elif how.startswith("service"):
                s = {"id": p["id"], "flavour": fl, "program": p["program"]}
                if how == "service_before":
                    s["create"] = "before"
                elif how == "service_after":
                    script.append(["service", s["id"]])
                else:
                    via = rnd.choice(["threading", fl])
                    gen["payloads"].append({"id": new("maker"), "flavour": via, "when": "queued", "cleanup": {"kind": "none"},
                                            "program": [["sleep", 0.01], ["service", s["id"]]] + ([["sleep", 0.2]] if via == "threading" else [["beat", 0.02, None]])})
                gen["services"].append(s)
            else:
                p["executed"] = True
                # the executed payload ends with a result or with an error of its own (for the caller, not for the runtime)
                p["program"] = worker_program(rnd, forever=False) + [rnd.choice([["return", "str"], ["return", "str"], ["raise", "RuntimeError"], ["raise", "NotImplementedError"], ["raise", "LookupError"]])]
                gen["payloads"].append(p)
                if how == "exec_outside":
                    script.append(["thread", [["execute", p["id"]]]])
                elif how == "exec_thread":
                    gen["payloads"].append({"id": new("tcaller"), "flavour": "threading", "when": "queued", "cleanup": {"kind": "none"},
                                            "program": [["sleep", 0.02], ["execute", p["id"]]]})
                else:
                    src = direction.split("_to_")[0]
                    caller = {"id": new("ccaller"), "flavour": src, "cleanup": {"kind": "none"},
                              "program": [["sleep", 0.02], ["execute", p["id"]], ["beat", 0.02, None]]}
                    gen["payloads"].append(caller)
                    script.append(["adopt", caller["id"]])
    # adopted and service thread payloads, some of them blocking
    for i in range(rnd.randint(0, 4)):
        blk = {"id": new("blk"), "flavour": "threading", "program": [["ctx"], ["block", 0.6]], "cleanup": {"kind": "none"}}
        if rnd.random() < 0.5:
            blk["when"] = "queued"
            gen["payloads"].append(blk)
        elif rnd.random() < 0.5:
            gen["payloads"].append(blk)
            script.append(["adopt", blk["id"]])
        else:
            gen["services"].append({"id": blk["id"], "flavour": "threading", "program": blk["program"], "create": "before"})
    # a thread that blocks *inside execute* while coroutine payloads keep adopting and executing
    if rnd.random() < 0.5:
        gen["payloads"].append({"id": new("xblock"), "flavour": "threading", "executed": True, "program": [["block", 0.6], ["return", "none"]], "cleanup": {"kind": "none"}})
        xb = gen["payloads"][-1]["id"]
        gen["payloads"].append({"id": new("blkcaller"), "flavour": "threading", "when": "queued", "program": [["sleep", 0.05], ["execute", xb]], "cleanup": {"kind": "none"}})
        for fl in common.COROUTINE:
            ops = []
            for j in range(8):
                small = {"id": new("tick"), "flavour": rnd.choice([fl, "threading"]), "program": [["sleep", 0.005]], "cleanup": {"kind": "none"}}
                gen["payloads"].append(small)
                ops += [["adopt", small["id"]], ["sleep", 0.06]]
            gen["payloads"].append({"id": new("chatty"), "flavour": fl, "when": "queued", "program": ops + [["beat", 0.02, None]], "cleanup": {"kind": "none"}})
    # a service that cobald ships (FactoryPool, trio flavour): the child factory it calls is part of that trio payload
    if rnd.random() < 0.3:
        gen["services"].append({"id": new("shipped"), "flavour": "trio", "program": [], "shipped": rnd.choice(["FactoryPool", "Stepwise", "Linear", "Buffer"]), "create": rnd.choice(["before", "before", "after"]),
                                "interval": rnd.choice([0.02, 0.05]), "demand": rnd.choice([2, 5])})
        if gen["services"][-1]["create"] == "after":
            script.append(["service", gen["services"][-1]["id"]])
        gen.setdefault("tags", []).append("shipped_trio_service")
    # a thread payload fails while another one still blocks: the coroutine payloads run on until they are cancelled
    if rnd.random() < 0.15:
        gen["payloads"].append({"id": new("tblocked"), "flavour": "threading", "when": "queued", "program": [["ctx"], ["block"]], "cleanup": {"kind": "none"}})
        gen["payloads"].append({"id": new("tfail"), "flavour": "threading", "when": "queued", "cleanup": {"kind": "none"},
                                "program": [["sleep", rnd.choice([0.3, 0.5])], ["raise", "LookupError"]]})
        gen.setdefault("tags", []).append("thread_failure_beside_blocked_thread")
    # a thread payload that blocks by computing (it never releases the interpreter voluntarily)
    if rnd.random() < 0.1:
        gen["payloads"].append({"id": new("burner"), "flavour": "threading", "when": "queued", "cleanup": {"kind": "none"},
                                "program": [["sleep", 0.05], ["burn", 0.6]]})
        gen.setdefault("tags", []).append("compute_bound_thread_payload")
    # a thread payload with a trio run of its own whose worker thread executes a trio payload in the runtime
    if rnd.random() < 0.25:
        p = {"id": new("viaforeign"), "flavour": "trio", "executed": True, "cleanup": {"kind": "none"},
             "program": [["ctx"], ["crit", 300], ["sleep", 0.01], ["crit", 300], ["return", "str"]]}
        gen["payloads"].append(p)
        gen["payloads"].append({"id": new("foreigntrio"), "flavour": "threading", "when": "queued", "cleanup": {"kind": "none"},
                                "program": [["sleep", 0.03], ["private_trio_execute", [p["id"]]]]})
        gen.setdefault("tags", []).append("execute_from_foreign_trio_worker")
    # the same thread payload (the very same callable) adopted a second time by coroutine payloads while its first run still blocks
    if rnd.random() < 0.3:
        again = {"id": new("again"), "flavour": "threading", "when": "queued", "program": [["ctx"], ["block", 1.3]], "cleanup": {"kind": "none"}}
        long_blocker = True
        gen["payloads"].append(again)
        for fl in common.COROUTINE:
            gen["payloads"].append({"id": new("readopter"), "flavour": fl, "when": "queued", "cleanup": {"kind": "none"},
                                    "program": [["sleep", 0.08], ["adopt_same", again["id"]], ["beat", 0.02, None]]})
        gen.setdefault("tags", []).append("thread_payload_adopted_again_while_running")
    # a thread payload constructs a service whose constructor blocks for 1.3 s: that is blocking inside a thread payload like any other
    if rnd.random() < 0.25:
        slow = {"id": new("slowsvc"), "flavour": rnd.choice(common.FLAVOURS), "program": [["ctx"], ["sleep", 0.01]], "init_blocks": 1.3}
        gen["services"].append(slow)
        gen["payloads"].append({"id": new("builder"), "flavour": "threading", "when": "queued", "cleanup": {"kind": "none"},
                                "program": [["sleep", 0.1], ["service", slow["id"]]]})
        long_blocker = True
        gen.setdefault("tags", []).append("service_with_blocking_constructor_built_by_a_thread_payload")
    # a coroutine payload adopts 16 long-blocking thread payloads in one go: adopt returns at once for each, the loop carries on
    if rnd.random() < 0.2:
        fl = rnd.choice(common.COROUTINE)
        ops = [["sleep", 0.1]]
        for j in range(16):
            gen["payloads"].append({"id": new("stormblk"), "flavour": "threading", "program": [["block", 1.3]], "cleanup": {"kind": "none"}})
            ops.append(["adopt", gen["payloads"][-1]["id"]])
        gen["payloads"].append({"id": new("stormer"), "flavour": fl, "when": "queued", "program": ops + [["beat", 0.02, None]], "cleanup": {"kind": "none"}})
        long_blocker = True
        gen.setdefault("tags", []).append("adoption_of_16_blocking_thread_payloads_in_one_go")
    # a crowd of blocking thread payloads, with coroutine payloads adopting more thread payloads meanwhile
    if rnd.random() < 0.25:
        crowd = rnd.choice([40, 70, 130])
        ops = []
        for i in range(crowd):
            # adopted by an outside thread once the runtime runs: queued before start, the loop thread itself would be
            # busy starting 130 threads while the first of them already block (a start-up cost, not a stall by blocking)
            gen["payloads"].append({"id": new("crowd"), "flavour": "threading", "program": [["block", 0.6]], "cleanup": {"kind": "none"}})
            ops.append(["adopt", gen["payloads"][-1]["id"]])
        script.append(["thread", ops])
        for fl in common.COROUTINE:
            ops = [["sleep", 0.1]]
            for j in range(6):
                small = {"id": new("late"), "flavour": "threading", "program": [["ctx"], ["sleep", 0.01]], "cleanup": {"kind": "none"}}
                gen["payloads"].append(small)
                ops += [["adopt", small["id"]], ["sleep", 0.05]]
            gen["payloads"].append({"id": new("feeder"), "flavour": fl, "when": "queued", "program": ops + [["beat", 0.02, None]], "cleanup": {"kind": "none"}})
        gen.setdefault("tags", []).append("crowd")
    # adoption of a thread payload while the OS cannot start new threads
    if rnd.random() < 0.3:
        for fl in common.COROUTINE:
            victim = {"id": new("nothread"), "flavour": "threading", "program": [["ctx"], ["block", 0.3]], "cleanup": {"kind": "none"}}
            gen["payloads"].append(victim)
            gen["payloads"].append({"id": new("starved"), "flavour": fl, "when": "queued", "cleanup": {"kind": "none"},
                                    "program": [["sleep", 0.05], ["adopt_no_threads", victim["id"]], ["beat", 0.02, None]]})
        gen.setdefault("tags", []).append("no_threads")
    # payloads parked on something only they reference ("run until cancelled"), and a garbage collection from another thread:
    # their whole life, cleanup included, belongs to the flavour's thread
    if rnd.random() < 0.4:
        for fl in common.COROUTINE:
            for _ in range(rnd.randint(1, 3)):
                p = {"id": new("parked"), "flavour": fl, "program": [["ctx"], ["sleep", 0.01], ["wait_private"]], "cleanup": {"kind": "sync", "dur": 0.0}}
                if rnd.random() < 0.5:
                    p["when"] = "queued"
                    gen["payloads"].append(p)
                elif rnd.random() < 0.5:
                    gen["payloads"].append(p)
                    script.append(["adopt", p["id"]])
                else:
                    gen["services"].append({"id": p["id"], "flavour": fl, "program": p["program"], "cleanup": p["cleanup"], "create": "before"})
        script += [["sleep", 0.2], ["gc"]]
        gen.setdefault("tags", []).append("parked_payloads_and_gc")
    script.append(["sleep", 1.6 if long_blocker else 0.9])
    script.append(["quiesce"])
    # the shutdown window: a trio payload keeps the runtime in its cleanup phase while foreign threads still adopt
    if rnd.random() < 0.35:
        gen["payloads"].append({"id": "slow", "flavour": "trio", "when": "queued", "program": [["ctx"], ["block"]],
                                "cleanup": {"kind": "shielded", "dur": rnd.choice([0.3, 0.5])}})
        for t in range(rnd.randint(1, 2)):
            ops = [["wait_event", "cancelled", "slow", 5.0]]
            for j in range(rnd.randint(3, 8)):
                late = {"id": new("window"), "flavour": rnd.choice(["trio", "trio", "asyncio"]), "cleanup": {"kind": "none"},
                        "program": [["ctx"], ["crit", 300], ["sleep", 0.01], ["crit", 300]]}
                gen["payloads"].append(late)
                ops += [["adopt", late["id"]], ["sleep", rnd.choice([0.0, 0.01, 0.03])]]
                if rnd.random() < 0.6:
                    # ... and call into the asyncio runner, which is closing but kept busy by a payload that has to be cancelled repeatedly
                    call = {"id": new("windowx"), "flavour": "asyncio", "executed": True, "cleanup": {"kind": "none"},
                            "program": [["ctx"], ["crit", 300], ["sleep", 0.01], ["crit", 300], ["return", "str"]]}
                    gen["payloads"].append(call)
                    ops += [["execute", call["id"]], ["sleep", rnd.choice([0.0, 0.02])]]
            script.append(["thread", ops])
        gen["payloads"].append({"id": "stubborn", "flavour": "asyncio", "when": "queued", "program": [["ctx"], ["beat", 0.01, None]],
                                "cleanup": {"kind": "absorb", "times": 3}})
        script.append(["shutdown"])
        gen.setdefault("tags", []).append("shutdown_window")
    # the runtime is not alone in its process: a second, independent runtime (a bare MetaRunner) runs beside it, or other
    # service runners tried to accept and were refused - its payloads and the services created afterwards still all run in its loops
    forced = spec.get("case_index") == 4 and spec.get("shard") in (0, 1, 2, 3)
    if forced or rnd.random() < 0.12:
        rival = ["runtime", "accepts"][spec.get("shard", 0) % 2] if forced else rnd.choice(["runtime", "accepts"])
        pre = [["rival_runtime"]] if rival == "runtime" else []
        if rival == "accepts":
            for _ in range(rnd.choice([2, 3])):
                pre += [["thread", [["second_accept"]]], ["wait_event", "raised", None, 0.5], ["sleep", 0.02]]
        for fl in common.COROUTINE:
            for _ in range(4):
                s = {"id": new("latesvc"), "flavour": fl, "program": [["ctx"], ["crit", 300], ["sleep", 0.01], ["crit", 300], ["beat", 0.02, 10]]}
                gen["services"].append(s)
                pre += [["service", s["id"]], ["sleep", rnd.choice([0.0, 0.03, 0.06])]]
            late = {"id": new("lateadopt"), "flavour": fl, "program": [["ctx"], ["crit", 300], ["sleep", 0.01], ["crit", 300]], "cleanup": {"kind": "none"}}
            gen["payloads"].append(late)
            pre.append(["adopt", late["id"]])
        script[1:1] = pre
        gen.setdefault("tags", []).append("rival_" + rival)
    gen["script"] = script
    return {"watchdog": 40, "inject": common.inject_conf(rnd, 0.7), "generations": [gen], "meta": {"direction": direction}}


def judge(case, run, result):
    trouble = common.harness_trouble(run)
    if trouble:
        result.inconc(trouble)
        return []
    if common.watchdog_fired(run):
        blocked = run.of("block-start", gen=0)
        beats = run.of("beat", gen=0)
        if blocked and beats and not run.first("quiescent", gen=0):
            # the scenario never got past its blocking phase: the loops stalled behind a thread payload
            return [("the runtime stalled while thread payload %s was blocking (last heartbeat %.2f s into the scenario): %s"
                     % (blocked[-1]["pid"], beats[-1]["t"], run.stacks[-1500:]), None)]
        result.inconc("watchdog fired: %s" % run.stacks[-1500:])
        return []
    gen = case["generations"][0]
    specs = {p["id"]: p for p in gen["payloads"]}
    specs.update({"svc:" + s["id"]: s for s in gen["services"]})
    problems = []
    homes = {}
    for fl in common.COROUTINE:
        h = run.first("start", gen=0, pid="heart_" + fl)
        if h is None:
            result.inconc("heartbeat payload of %s never started" % fl)
            return []
        homes[fl] = {"th": h["th"], "loop": h["loop"], "token": h["token"]}
    accepting = run.first("call", gen=0, op="accept")
    if accepting is None or run.first("start", gen=0, pid="heart_asyncio")["th"] != accepting["th"]:
        problems.append(("asyncio payloads do not run in the thread that called accept", None))
    observed = {"asyncio": 0, "trio": 0}
    payload_counts = {"asyncio": set(), "trio": set()}
    for e in run.events:
        if e.get("gen") != 0 or e["kind"] not in ("start", "step", "crit", "cancelled", "cleanup-done") or e.get("pid") not in specs:
            continue
        sp = specs[e["pid"]]
        fl = sp["flavour"]
        if e["kind"] in ("cancelled", "cleanup-done"):
            # the end of a payload's life belongs to the same thread as the rest of it
            if fl in common.COROUTINE:
                result.count("payload_endings_checked")
                if e["th"] != homes[fl]["th"]:
                    problems.append(("%s payload %s was torn down (%s) on another thread than the one all %s payloads run on%s"
                                     % (fl, e["pid"], e["kind"], fl, "" if run.first("cancelled", gen=0, pid=e["pid"]) else ", and without ever being cancelled"), None))
            continue
        role = "executed" if sp.get("executed") else "service" if e["pid"].startswith("svc:") else "adopted"
        if fl in common.COROUTINE:
            observed[fl] += 1
            payload_counts[fl].add(e["pid"])
            home = homes[fl]
            key = "loop" if fl == "asyncio" else "token"
            if e["th"] != home["th"] or e.get(key) != home[key] or e.get("lib") != fl:
                problems.append(("%s %s payload %s ran on a different thread / %s than the other %s payloads (lib=%s, same thread=%s, same %s=%s)"
                                 % (role, fl, e["pid"], "event loop" if fl == "asyncio" else "trio run", fl, e.get("lib"), e["th"] == home["th"], key, e.get(key) == home[key]), None))
            if e.get("inside_section"):
                problems.append(("%s payload %s took a step while %d other %s payload(s) were inside a synchronous section"
                                 % (fl, e["pid"], e["inside_section"], fl), None))
            if e["kind"] == "crit":
                result.count("synchronous_sections_checked")
                if e["entered_with"] != 0:
                    problems.append(("%s payload %s entered a synchronous section while %d other %s payload(s) were inside one"
                                     % (fl, e["pid"], e["entered_with"], fl), None))
            result.count("steps_%s_%s" % (role, fl))
            if e.get("n") == -1:
                result.count("synchronous_first_sections_of_plain_callables_checked")
            if e.get("n") == -2:
                result.count("callbacks_of_a_shipped_trio_service_checked")
        elif not sp.get("executed"):
            if e["th"] in (homes["asyncio"]["th"], homes["trio"]["th"]):
                problems.append(("%s thread payload %s ran on the %s loop thread" % (role, e["pid"], "asyncio" if e["th"] == homes["asyncio"]["th"] else "trio"), None))
            result.count("steps_%s_threading" % role)
    burning = bool(run.of("block-start", gen=0, how="burn"))  # a computing thread slows every loop turn: no pause criterion then
    g0, g1 = run.first("generation", gen=0), run.first("generation-end", gen=0)
    if g0 and g1 and g0.get("switchinterval") != g1.get("switchinterval"):
        problems.append(("the interpreter's thread switch interval changed from %r to %r while the runtime ran: a thread payload that computes "
                         "now holds up every other thread that long" % (g0.get("switchinterval"), g1.get("switchinterval")), None))
    for s in run.of("block-start", gen=0):
        end = [e for e in run.of("block-end", gen=0, pid=s["pid"])]
        if not end or end[0]["t"] - s["t"] < 0.5:
            continue
        if s.get("how") == "burn":
            # compute-bound: every other thread now pays the interpreter's switch interval (5 ms) for each time it needs the
            # interpreter - a loop turn needs it several times, the injected yields even more. How slow that makes the loops is
            # CPython's business; what is asserted (above) is that the runtime leaves the switch interval untouched
            ended = run.first("accept-ended", gen=0)
            if ended is not None and ended["seq"] < end[0]["seq"]:
                continue
            for fl in common.COROUTINE:
                # recorded, not judged: which of several waiting threads gets the interpreter next is up to the OS - a loop can
                # go without it for the whole 0.6 s (seen on the unchanged tree)
                beats = [e for e in run.of("beat", gen=0, pid="heart_" + fl) if s["seq"] < e["seq"] < end[0]["seq"]]
                result.count("heartbeats_during_computing", len(beats))
            result.count("compute_bound_thread_payloads_observed")
            continue
        ended = run.first("accept-ended", gen=0)
        if ended is not None and ended["seq"] < end[0]["seq"]:
            result.count("blocking_windows_cut_short_by_runtime_end")
            continue  # the runtime ended while the thread was blocked: heartbeats legitimately stop
        if burning:
            result.count("blocking_windows_not_judged_beside_a_computing_thread")
            continue
        ticks = [e for e in run.of("tick", gen=0) if s["seq"] < e["seq"] < end[0]["seq"]]
        samples = [e for e in ticks if e.get("waited")]
        if len(ticks) < 15:
            # even a plain thread sleeping 10 ms at a time hardly ran in these 0.6 s: the machine is starved,
            # nothing can be said about this window
            result.count("blocking_windows_skipped_machine_starved")
            continue
        def longest_pause(events):
            marks = [s["t"]] + [e["t"] for e in events] + [end[0]["t"]]
            return max(b - a for a, b in zip(marks, marks[1:]))

        reference = longest_pause(ticks)

        def cpu_wait(fl):
            """Seconds the flavour's loop thread waited for a CPU during the window (None-safe; 0 if unknown)."""
            tid = str(run.first("start", gen=0, pid="heart_" + fl).get("tid"))
            values = [e["waited"].get(tid) for e in samples if e["waited"].get(tid) is not None]
            return values[-1] - values[0] if len(values) >= 2 else 0.0

        for fl in common.COROUTINE:
            stopped = run.first("cancelled", gen=0, pid="heart_" + fl)
            if stopped is not None and stopped["seq"] < end[0]["seq"]:
                # the runtime was already terminating (the heartbeat payload had been cancelled) before this thread stopped blocking
                result.count("blocking_windows_cut_short_by_runtime_end")
                continue
            beats = [e for e in run.of("beat", gen=0, pid="heart_" + fl) if s["seq"] < e["seq"] < end[0]["seq"]]
            if len(beats) < 2 and reference < 0.1 and cpu_wait(fl) > 0.1:
                # same explanation as for the pauses below: the loop's thread was runnable and waited for a CPU
                result.count("pauses_explained_by_cpu_contention")
            elif len(beats) < 2 and "crowd" in gen.get("tags", []) and any(
                    str(e.get("pid", "")).startswith("crowd") and s["seq"] < e["seq"] < end[0]["seq"] for e in run.of("start", gen=0)):
                # threads of the crowd were still being started inside this window (adopt of a thread payload returns when the
                # new thread runs; seen under a load of 2 x cores on the unchanged tree): start-up cost, not blocking
                result.count("pauses_not_judged_while_a_crowd_of_threads_starts")
            elif len(beats) < 2:
                problems.append(("while thread payload %s blocked for %.2f s the %s heartbeat advanced only %d time(s)"
                                 % (s["pid"], end[0]["t"] - s["t"], fl, len(beats)), None))
            elif end[0]["t"] - s["t"] < 1.0:
                # a 0.6 s window: only "keeps advancing" is judged; the pause criterion needs the long (1.3 s) blockers - with
                # synchronous execute calls between the loops and thread start-up on a busy machine 0.35 s pauses do occur
                result.count("heartbeats_during_blocking", len(beats))
            elif longest_pause(beats) > 0.6 and reference < 0.1 and cpu_wait(fl) > 0.1:
                # the loop's thread was runnable but got no CPU for that long (scheduler statistics): a contended machine
                result.count("pauses_explained_by_cpu_contention")
            elif longest_pause(beats) > 0.6 and reference < 0.1 and "crowd" in gen.get("tags", []):
                # coroutine payloads start threads here (adopt of a thread payload returns when the new thread runs): on a loaded
                # machine with 130 threads that takes its time - start-up cost, not blocking
                result.count("pauses_not_judged_while_a_crowd_of_threads_starts")
            elif longest_pause(beats) > 0.6 and reference < 0.1:
                # the loop stood still for most of the blocking time although a plain thread ticking every 10 ms never paused
                # for 0.1 s: not a starved machine, the loop was held up
                problems.append(("while thread payload %s blocked for %.2f s the %s heartbeat (period 10 ms) paused for %.2f s; a plain reference "
                                 "thread never paused longer than %.2f s" % (s["pid"], end[0]["t"] - s["t"], fl, longest_pause(beats), reference), None))
            else:
                result.count("heartbeats_during_blocking", len(beats))
        result.count("blocking_thread_payloads_observed")
    if "thread_failure_beside_blocked_thread" in gen.get("tags", []) and not burning:
        failed = run.first("fail", gen=0)
        for fl in common.COROUTINE:
            cancelled = run.first("cancelled", gen=0, pid="heart_" + fl)
            beats = [e for e in run.of("beat", gen=0, pid="heart_" + fl)]
            if failed is None or cancelled is None or not beats:
                continue
            if cancelled["t"] <= failed["t"]:
                continue
            # the heartbeat between the failure and its own cancellation: it may end any moment, but it must not stand still
            inside = [e["t"] for e in beats if failed["t"] <= e["t"] <= cancelled["t"]]
            marks = [failed["t"]] + inside + [cancelled["t"]]
            gap = max(b - a for a, b in zip(marks, marks[1:]))
            ticks = [e["t"] for e in run.of("tick", gen=0) if failed["t"] <= e["t"] <= cancelled["t"]]
            marks = [failed["t"]] + ticks + [cancelled["t"]]
            reference = max(b - a for a, b in zip(marks, marks[1:]))
            result.count("ends_by_thread_failure_beside_a_blocked_thread_checked")
            if gap > 0.5 and reference < 0.1:
                problems.append(("after thread payload %s failed while %s was still blocking, the %s heartbeat (period 10 ms) stood still for %.2f s before "
                                 "it was cancelled; the reference loop never paused longer than %.2f s" % (failed["pid"], "another thread payload", fl, gap, reference), None))
    for tag in gen.get("tags", []):
        if tag == "rival_runtime" and not run.first("rival-running", gen=0):
            continue  # planned, not observed
        if tag == "rival_accepts" and len(run.of("raised", gen=0, op="second_accept")) < 2:
            continue
        result.count("scenarios_with_%s" % tag)
    for e in run.of("return", gen=0, op="second_accept"):
        problems.append(("a second service runner was allowed to accept beside the running one", None))
    unexpected = [e for e in run.of("raised", gen=0, op="adopt") if not e["pid"].startswith(("nothread", "window"))]
    if unexpected:
        e = unexpected[0]
        problems.append(("adopt of %s by %s raised %s(%s)" % (e["pid"], e["by"], e["exc"], e["msg"]), None))
    result.count("sections_that_adopt_checked", sum(1 for p in gen["payloads"] for op in p.get("program", []) if op[0] == "crit_adopt"))
    if any(p["id"].startswith("xblock") for p in gen["payloads"]) and run.of("block-start", gen=0):
        result.count("blocking_executes_observed")
    if any(p["id"].startswith("foreign") for p in gen["payloads"]):
        result.count("scenarios_with_foreign_loop_submitter")
    result.count("distinct_payloads_asyncio", len(payload_counts["asyncio"]))
    result.count("distinct_payloads_trio", len(payload_counts["trio"]))
    return problems[:5]


def execute(case, result):
    run = common.run_and_observe(case, result)
    return judge(case, run, result), run


def run_daemon_shard(spec, result):
    """The daemon's own asyncio payload - the one that loads the configuration - is an asyncio payload like any other:
    what it executes and constructs runs in the event loop thread, where the configured asyncio services run later."""
    from vlib import proc

    yaml_cfg = "pipeline:\n  - !VSvcCtrl {label: svcT, period: 0.05}\n  - !VSvcDeco {label: svcA, period: 0.05}\n  - !VSvcPool {label: svcP, period: 0.05}\n"
    py_cfg = ("from vplug import VSvcCtrl, VSvcDeco, VSvcPool\n"
              "pipeline = VSvcCtrl.s(label='svcT', period=0.05) >> VSvcDeco.s(label='svcA', period=0.05) >> VSvcPool(label='svcP', period=0.05)\n")
    for idx, (fmt, text, suffix) in enumerate([("yaml", yaml_cfg, ".yaml"), ("python", py_cfg, ".py")]):
        if spec.get("only_case") is not None and spec["only_case"] != idx:
            continue
        labels = ["svcT", "svcA", "svcP"]

        def ready(events):
            beats = {}
            for e in events:
                if e["kind"] == "beat":
                    beats[e["label"]] = max(beats.get(e["label"], -1), e["n"])
            return all(beats.get(lb, -1) >= 3 for lb in labels)

        run = proc.run_daemon(text, suffix, ready, signal_after=0.2, timeout=25.0)
        case = {"kind": "daemon", "format": fmt}
        ctors = run.of("ctor")
        home = [e for e in run.of("run") if e.get("label") == "svcA"]
        result.case(dict(case, constructions=len(ctors)), nontrivial=bool(ctors and home), key=fmt)
        if len(ctors) < 3 or not home:
            result.inconc("daemon scenario (%s configuration): the services never came up (constructions %d, exit status %s): %s"
                          % (fmt, len(ctors), run.exit_code, run.stderr[-600:]))
            continue
        result.count("daemon_configurations_loaded_by_the_runtimes_own_asyncio_payload")
        away = [e for e in ctors if e["thread"] != home[0]["thread"] or not e.get("loop_running")]
        if away:
            result.violation("%s configuration of the daemon: %d of %d configured objects (first: %s) were constructed %s - the daemon's configuration-loading asyncio payload ran outside the event loop thread, where the asyncio service svcA runs"
                             % (fmt, len(away), len(ctors), away[0].get("label"), "in another thread" if away[0]["thread"] != home[0]["thread"] else "with no event loop running"),
                             dict(case, observed=[{k: e.get(k) for k in ("label", "thread", "loop_running")} for e in ctors[:6]]), None,
                             spec={k: v for k, v in spec.items() if k != "only_case"}, case_id=idx)


def run_shard(spec):
    result = core.Result()
    if spec.get("kind") == "daemon":
        run_daemon_shard(spec, result)
        return result
    only = spec.get("only_case")
    for i in range(spec["n"]):
        if only is not None and i != only:
            continue
        case = gen_case(core.rng(PID, spec["seed"], spec["shard"], i), dict(spec, case_index=i))
        problems, run = execute(case, result)
        result.case(common.sample(case, run, **{"payloads": len(case["generations"][0]["payloads"]), "services": len(case["generations"][0]["services"]), "direction": case["meta"]["direction"]}),
                    nontrivial=len(run.of("start")) >= 6, key=common.shape(case))
        for what, mech in problems:
            clean = {k: v for k, v in spec.items() if k != "only_case"}
            result.violation(what, {"scenario": case, "run": run.witness()}, mech, spec=clean, case_id=i)
    return result


def finish(total, tier):
    need = ["synchronous_sections_checked", "blocking_thread_payloads_observed", "heartbeats_during_blocking", "scenarios_with_foreign_loop_submitter",
            "steps_adopted_threading", "sections_that_adopt_checked", "blocking_executes_observed", "scenarios_with_crowd", "scenarios_with_no_threads",
            "scenarios_with_parked_payloads_and_gc", "scenarios_with_thread_payload_adopted_again_while_running", "scenarios_with_compute_bound_thread_payload", "scenarios_with_adoption_of_16_blocking_thread_payloads_in_one_go", "callbacks_of_a_shipped_trio_service_checked", "scenarios_with_interrupt_in_a_thread_waiting_in_execute", "ends_by_thread_failure_beside_a_blocked_thread_checked", "compute_bound_thread_payloads_observed",
            "scenarios_with_execute_from_foreign_trio_worker", "scenarios_with_execute_while_a_payload_keeps_the_loop_for_1.3_s", "synchronous_first_sections_of_plain_callables_checked", "scenarios_with_shutdown_window", "payload_endings_checked", "scenarios_with_rival_runtime", "scenarios_with_rival_accepts", "scenarios_with_service_with_blocking_constructor_built_by_a_thread_payload", "daemon_configurations_loaded_by_the_runtimes_own_asyncio_payload"]
    need += ["steps_%s_%s" % (r, f) for r in ("adopted", "service", "executed") for f in common.COROUTINE]
    for name in need:
        if not total.counters.get(name) and not total.violations:
            total.inconc("monitor never observed: " + name)
