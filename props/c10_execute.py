"""C10 - execute hands the payload's outcome to the caller and leaves the runtime alone.

Monitor (E1): call / return / raised events around every execute at the client boundary - the
harness decides in-process whether the caller received the very object the payload returned or
raised -, the executed payload's own start event (arguments, thread, loop / token), bystander
heartbeats after the calls, and how accept ends when the harness finally shuts down.
"""
from vlib import core
from vlib.rt import common

PID = "C10"

META = {
    "level": "exploration",
    "engine": "E1 runtime scenario engine",
    "rule": (
        "kind=restart: executes of every flavour in 2-3 successive runs of the same (70 %) or a new runner; kind=random: seeded random scenarios: sequences of 1-30 execute calls over flavour (3) x kind of callable (function, lambda, wrapped, partial, callable object, bound method, plain function with a synchronous first section, the same marked as coroutine function) x calling context (outside "
        "thread, thread payload, coroutine payload of the other coroutine flavour, helper threads calling "
        "concurrently) x outcome (None, falsy, mutable and large return objects; Exception subclasses incl. "
        "KeyError, TimeoutError, RuntimeError, exceptions with attributes) x argument shapes, nested executes "
        "(an executed payload that executes another one), two executes that need each other to make progress, "
        "interleaved with 0-6 adopted bystanders and heartbeat payloads in both loops; line-level delay injection. "
        "Non-trivial = >= 2 execute calls judged; distinct by scenario shape."
    ),
    "assumptions": [
        "execute of a coroutine flavour is never called from inside that flavour's own loop thread, and the two loop threads are never made to execute into each other at the same time (mutual wait inherent to a synchronous call)",
        "a trio payload that executes into asyncio is adopted after start (queued before start it can deadlock the start-up: known finding)",
    ],
    "shard_timeout": {"quick": 900, "thorough": 3600},
}
RETURNS = ["none", "zero", "false", "emptystr", "emptylist", "str", "object", "dict", "biglist", "exception_instance", "one",
           "awaitable", "awaitable", "generator", "function", "type"]  # also values that could be mistaken for work still to do
RAISES = ["LookupError", "KeyError", "ValueError", "CustomWithArgs", "Unprintable", "ReadOnlyError", "NotedError", "RuntimeError", "OSError", "AssertionError", "StopAsyncIteration",
          "TimeoutError", "InvalidStateError", "FuturesCancelledError", "ExceptionGroup"]
BRIDGE_KINDS = {"TimeoutError", "InvalidStateError", "FuturesCancelledError", "CancelledError"}
ARGS = [([], {}), ([1], {}), ([], {"k": 1}), ([1, "two"], {"k": 1}), ([[1, 2]], {"opt": {"x": 1}}),
        (["<grumpy>"], {}), ([1, "<grumpy>"], {"k": 1}),
        # keywords called like things the runtime itself has names for: they are the payload's all the same
        ([], {"func": 1}), ([2], {"args": [3], "kwargs": {"x": 1}}), ([], {"runner": 2, "fn": 3, "target": 4, "name": 5})]  # <grumpy>: an object whose repr() raises


def plan(tier, seed):
    if tier == "thorough":
        return [dict(seed=seed, shard=i, n=60, kind="random") for i in range(16)] + [dict(seed=seed, shard="known", n=1, kind="known"), dict(seed=seed, shard="restart", n=40, kind="restart")]
    return [dict(seed=seed, shard=i, n=5, kind="random") for i in range(16)] + [dict(seed=seed, shard="known", n=1, kind="known"),
                                                                                dict(seed=seed, shard="restart", n=6, kind="restart")]


def executed(rnd, pid, flavour, extra=None):
    a, k = rnd.choice(ARGS)
    if rnd.random() < 0.55:
        outcome = ["return", rnd.choice(RETURNS)]
    else:
        # a plain function may also raise StopIteration (inside a coroutine Python itself turns it into RuntimeError)
        outcome = ["raise", rnd.choice(RAISES + (["StopIteration", "StopIteration"] if flavour == "threading" else []))]
    pre = rnd.choice([[], [], [["sleep", 0.005]], [["ctx"]]])
    # what is handed to execute need not be a plain (coroutine) function: anything callable that gives the right thing will do
    how = rnd.choice(["function", "function", "lambda", "wrapped", "partial", "object", "method", "prefixed", "marked"])
    return {"id": pid, "flavour": flavour, "executed": True, "args": a, "kwargs": k, "cleanup": {"kind": "none"},
            "program": pre + (extra or []) + [outcome], "outcome": outcome, "callable": how}


def gen_case(rnd, spec):
    gen = {"accept_delay": rnd.choice([0.03, 0.05]), "payloads": [], "services": [], "grace": 0.2}
    script = [["wait_running", 10]]
    direction = rnd.choice(["asyncio_to_trio", "trio_to_asyncio"])  # the only cross-loop direction used in this scenario
    for fl in common.COROUTINE:
        gen["payloads"].append({"id": "heart_" + fl, "flavour": fl, "when": "queued", "program": [["beat", 0.01, None]], "cleanup": {"kind": "none"}})
    for i in range(rnd.randint(0, 6)):
        b = common.bystander(rnd, "b%d" % i)
        gen["payloads"].append(b)
        if b["when"] == "running":
            script.append(["adopt", b["id"]])
    n = [0]
    calls = []

    def new(flavour, extra=None):
        n[0] += 1
        p = executed(rnd, "x%d" % n[0], flavour, extra)
        gen["payloads"].append(p)
        calls.append(p["id"])
        return p

    if rnd.random() < 0.3:
        which, args = rnd.choice([("max", [3, 7]), ("int", ["42"]), ("divmod", [7, 2]), ("str.format", [3, 7])])
        gen["payloads"].append({"id": "builtin0", "flavour": "threading", "executed": True, "args": args, "kwargs": {}, "cleanup": {"kind": "none"},
                                "builtin": which, "program": [], "outcome": ["return", "builtin"]})
        script.append(["execute", "builtin0"])
    if rnd.random() < 0.3:
        fl = rnd.choice(common.FLAVOURS)
        gen["payloads"].append({"id": "shared0", "flavour": fl, "executed": True, "args": [], "kwargs": {}, "cleanup": {"kind": "none"}, "callable": "function",
                                "program": [["sleep", rnd.choice([0.03, 0.06])], ["return", "str"]], "outcome": ["return", "str"]})
        script += [["execute_same_burst", "shared0", rnd.choice([2, 2, 3, 4])], ["sleep", 0.3]]
    for _ in range(rnd.randint(1, 10)):
        ctx = rnd.choice(["outside", "outside", "thread", "coroutine", "helpers", "nested", "pair", "trio_worker"])
        if ctx == "outside":
            script.append(["execute", new(rnd.choice(common.FLAVOURS))["id"]])
        elif ctx == "thread":
            kids = [new(rnd.choice(common.FLAVOURS)) for _ in range(rnd.randint(1, 3))]
            caller = {"id": "tcaller%d" % n[0], "flavour": "threading", "cleanup": {"kind": "none"},
                      "program": [["execute", k["id"]] for k in kids] + [["mark", "caller-done"]]}
            if rnd.random() < 0.35:
                # queued before the runtime starts - ahead of everything else, so its flavour is unqueued first: its executes
                # are among the very first things that happen in the run
                gen["payloads"].insert(0, caller)
                caller["when"] = "queued"
                script += [["wait_event", "mark", caller["id"], 6.0]]
                gen.setdefault("tags", []).append("early")
            else:
                gen["payloads"].append(caller)
                script += [["adopt", caller["id"]], ["wait_event", "mark", caller["id"], 6.0]]
        elif ctx == "trio_worker":
            # an outside thread of a special kind: the worker thread of a trio run that is not the runtime's (a thread payload
            # driving a private trio.run hands the call to trio.to_thread.run_sync)
            kids = [new(rnd.choice(common.FLAVOURS)) for _ in range(rnd.randint(1, 3))]
            caller = {"id": "wcaller%d" % n[0], "flavour": "threading", "cleanup": {"kind": "none"},
                      "program": [["private_trio_execute", [k["id"] for k in kids]], ["mark", "caller-done"]]}
            gen["payloads"].append(caller)
            script += [["adopt", caller["id"]], ["wait_event", "mark", caller["id"], 6.0]]
            gen.setdefault("tags", []).append("trio_worker")
        elif ctx == "coroutine":
            src, dst = direction.split("_to_")
            kids = [new(rnd.choice([dst, "threading"])) for _ in range(rnd.randint(1, 3))]
            caller = {"id": "ccaller%d" % n[0], "flavour": src, "cleanup": {"kind": "none"},
                      "program": [["sleep", 0.01]] + [["execute", k["id"]] for k in kids] + [["mark", "caller-done"], ["beat", 0.02, None]]}
            gen["payloads"].append(caller)
            script += [["adopt", caller["id"]], ["wait_event", "mark", caller["id"], 6.0]]
        elif ctx == "helpers":
            for _ in range(rnd.randint(2, 3)):
                kids = [new(rnd.choice(common.FLAVOURS)) for _ in range(rnd.randint(1, 4))]
                script.append(["thread", [["execute", k["id"]] for k in kids]])
            script.append(["sleep", 0.1])
        elif ctx == "nested":
            src, dst = direction.split("_to_")
            inner = new(rnd.choice(["threading", dst]))
            outer = new(src, extra=[["execute", inner["id"]]])
            calls.remove(inner["id"])
            calls.remove(outer["id"])
            calls += [outer["id"], inner["id"]]
            script.append(["execute", outer["id"]])
        else:  # two executes in flight that need each other: the second opens the gate the first waits for
            fl = rnd.choice(["asyncio", "trio"])
            gate = "pair%d" % n[0]
            waiter = new(fl, extra=[["gate", gate, 4.0]])
            opener = new(rnd.choice([fl, "threading"]), extra=[["open_gate", gate]])
            script.append(["thread", [["execute", waiter["id"]]]])
            script.append(["sleep", 0.03])
            script.append(["thread", [["execute", opener["id"]]]])
            script.append(["wait_event", "gate-passed", waiter["id"], 6.0])
    script.append(["sleep", 0.2])
    script.append(["quiesce"])
    script.append(["sleep", 0.1])
    gen["script"] = script
    return {"watchdog": 40, "inject": common.inject_conf(rnd, 0.7), "generations": [gen], "meta": {"kind": "random", "calls": calls, "direction": direction}}


def gen_known(rnd, spec):
    gen = {"accept_delay": 0.03, "payloads": [], "services": [], "grace": 0.2}
    gen["payloads"].append({"id": "x1", "flavour": "asyncio", "executed": True, "program": [["return", "str"]], "cleanup": {"kind": "none"}, "outcome": ["return", "str"]})
    gen["payloads"].append({"id": "early", "flavour": "trio", "when": "queued", "program": [["execute", "x1"], ["beat", 0.02, None]], "cleanup": {"kind": "none"}})
    gen["script"] = [["wait_running", 3], ["sleep", 0.5], ["quiesce"]]
    return {"watchdog": 5, "inject": None, "generations": [gen], "meta": {"kind": "known", "calls": ["x1"]}}


def judge(case, run, result):
    trouble = common.harness_trouble(run)
    if trouble:
        result.inconc(trouble)
        return []
    gen = case["generations"][0]
    specs = {p["id"]: p for p in gen["payloads"]}
    if common.watchdog_fired(run):
        mech = common.classify_hang(run)
        if mech == "startup-unqueue-deadlock":
            return [("a trio payload queued before start executed into asyncio before its first checkpoint: start-up deadlocked", "C10/startup-unqueue-deadlock")]
        open_calls = [e["pid"] for e in run.of("call", op="execute") if not run.of("return", op="execute", pid=e["pid"]) and not run.of("raised", op="execute", pid=e["pid"])]
        if open_calls:
            return [("execute of %s never returned: %s" % (open_calls, run.stacks[-1800:]), None)]
        result.inconc("watchdog fired: %s" % run.stacks[-1200:])
        return []
    if case["meta"]["kind"] == "known":
        if run.first("running-timeout"):
            return [("a trio payload queued before start executed into asyncio before its first checkpoint: the runtime never reported running", "C10/startup-unqueue-deadlock")]
        result.count("known_startup_scenario_completed")
        return []
    problems = []
    homes = {}
    for e in run.of("start", gen=0):
        if e["pid"].startswith("heart_"):
            if e["flavour"] == "asyncio":
                homes["loop"] = e["loop"]
            else:
                homes["token"], homes["trio_thread"] = e["token"], e["th"]
    last_outcome = 0
    for pid in sorted({c["pid"] for c in run.of("call", op="execute", gen=0) if c["pid"].startswith("shared")}):
        # one callable object handed to execute() by several callers at once: every caller gets its own run and its outcome
        calls_ = run.of("call", op="execute", gen=0, pid=pid)
        outs = [e for e in run.events if e.get("op") == "execute" and e.get("pid") == pid and e["kind"] in ("return", "raised")]
        starts = run.of("start", gen=0, pid=pid)
        bad = [e for e in outs if e["kind"] == "raised" or not e.get("payload_returned")]
        if len(outs) != len(calls_):
            problems.append(("execute of one callable (%s, flavour=%s) by %d callers at once: %d outcomes were delivered" % (pid, specs[pid]["flavour"], len(calls_), len(outs)), None))
        elif bad:
            problems.append(("execute of one callable (%s, flavour=%s) by %d callers at once: caller %s got %s(%s) instead of the payload's return value"
                             % (pid, specs[pid]["flavour"], len(calls_), bad[0]["by"], bad[0].get("exc"), bad[0].get("msg")), None))
        elif len(starts) != len(calls_):
            problems.append(("execute of one callable (%s) by %d callers at once: the payload was run %d times" % (pid, len(calls_), len(starts)), None))
        result.count("executes_of_one_callable_by_several_callers_at_once", len(calls_))
        last_outcome = max([last_outcome] + [e["seq"] for e in outs])
    for call in [c for c in run.of("call", op="execute", gen=0) if c["pid"].startswith("builtin")]:
        pid = call["pid"]
        outs = [e for e in run.events if e.get("op") == "execute" and e.get("pid") == pid and e["kind"] in ("return", "raised")]
        want = {"max": "7", "int": "42", "divmod": "(3, 1)", "str.format": "'3-7'"}[specs[pid]["builtin"]]
        result.count("executes_of_builtin_callables")
        if not outs or outs[0]["kind"] != "return" or outs[0].get("repr") != want:
            problems.append(("execute(%s, %s, flavour=threading) gave %s, expected the value %s"
                             % (specs[pid]["builtin"], ", ".join(map(repr, specs[pid]["args"])), (outs[0].get("exc"), outs[0].get("msg")) if outs and outs[0]["kind"] == "raised" else (outs and outs[0].get("repr")), want), None))
        last_outcome = max([last_outcome] + [e["seq"] for e in outs])
    for call in run.of("call", op="execute", gen=0):
        pid = call["pid"]
        if pid.startswith(("shared", "builtin")):
            continue
        sp = specs[pid]
        outs = [e for e in run.events if e.get("op") == "execute" and e.get("pid") == pid and e["kind"] in ("return", "raised")]
        if len(outs) != 1:
            if any(e["kind"] == "gate-timeout" for e in run.events) or not outs:
                problems.append(("execute(%s, flavour=%s) called by %s never delivered an outcome" % (pid, sp["flavour"], call["by"]), None))
            continue
        out = outs[0]
        last_outcome = max(last_outcome, out["seq"])
        starts = run.of("start", gen=0, pid=pid)
        if len(starts) != 1:
            problems.append(("execute(%s, flavour=%s): the payload was run %d times" % (pid, sp["flavour"], len(starts)), None))
            continue
        st = starts[0]
        result.count("executes_judged")
        result.count("executes_%s_from_%s" % (sp["flavour"], "outside" if call["by"].startswith("driver") else call["by"].rstrip("0123456789")))
        result.count("executes_of_callable_kind_%s" % sp.get("callable", "function"))
        if call["by"].startswith("tcaller") and specs.get(call["by"], {}).get("when") == "queued":
            result.count("executes_by_thread_payloads_queued_before_start")
        if not st["args_ok"]:
            problems.append(("execute(%s): payload did not receive exactly the supplied arguments %r %r" % (pid, sp["args"], sp["kwargs"]), None))
        # a plain callable's synchronous first section (logged as step -1) belongs to the flavour's runner like the rest
        for pre in [e for e in run.of("step", gen=0, pid=pid) if e.get("n") == -1]:
            result.count("synchronous_first_sections_checked")
            if sp["flavour"] == "asyncio" and (pre["lib"] != "asyncio" or pre["loop"] != homes.get("loop")):
                problems.append(("execute(%s, flavour=asyncio): the payload's first section ran outside the runtime's event loop (lib=%s, loop thread=%s)"
                                 % (pid, pre["lib"], pre["main"]), None))
            if sp["flavour"] == "trio" and (pre["lib"] != "trio" or pre["token"] != homes.get("token")):
                problems.append(("execute(%s, flavour=trio): the payload's first section ran outside the runtime's trio run (lib=%s)" % (pid, pre["lib"]), None))
        if sp["flavour"] == "asyncio":
            if st["lib"] != "asyncio" or not st["main"] or st["loop"] != homes.get("loop"):
                problems.append(("execute(%s, flavour=asyncio) ran outside the runtime's event loop (lib=%s, loop thread=%s, same loop=%s)"
                                 % (pid, st["lib"], st["main"], st["loop"] == homes.get("loop")), None))
        elif sp["flavour"] == "trio":
            if st["lib"] != "trio" or st["token"] != homes.get("token") or st["th"] != homes.get("trio_thread"):
                problems.append(("execute(%s, flavour=trio) ran outside the runtime's trio run (lib=%s, same token=%s, same thread=%s)"
                                 % (pid, st["lib"], st["token"] == homes.get("token"), st["th"] == homes.get("trio_thread")), None))
        else:
            if st["th"] != call["th"]:
                problems.append(("execute(%s, flavour=threading) did not run in the caller's thread" % pid, None))
        how, what = sp["outcome"]
        gate_failed = any(e["kind"] == "gate-timeout" and e.get("pid") == pid for e in run.events)
        if gate_failed:
            problems.append(("execute(%s): the payload waited in vain for a second, concurrent execute to run" % pid, None))
        if how == "return":
            if out["kind"] != "return":
                problems.append(("execute(%s, flavour=%s): payload returned %s but the caller got %s(%s)" % (pid, sp["flavour"], what, out.get("exc"), out.get("msg")), None))
            elif not out["same_object"]:
                problems.append(("execute(%s, flavour=%s): caller received %s, not the very object the payload returned (%s)" % (pid, sp["flavour"], out["repr"], what), None))
            else:
                result.count("results_returned_by_identity")
                if what == "awaitable":
                    result.count("awaitable_results_returned_as_they_are_%s" % sp["flavour"])
        else:
            if out["kind"] != "raised":
                problems.append(("execute(%s, flavour=%s): payload raised %s but the caller got a return value" % (pid, sp["flavour"], what), None))
            elif not out["same_object"]:
                mech = None
                if sp["flavour"] == "asyncio" and what in BRIDGE_KINDS and out.get("same_name_and_args"):
                    mech = "C10/asyncio-bridge-recreates-exception"
                problems.append(("execute(%s, flavour=%s) from %s: payload raised %s, caller got %s(%s) - not the very exception object (same class name and args: %s)"
                                 % (pid, sp["flavour"], call["by"], what, out["exc"], out["msg"], out.get("same_name_and_args")), mech))
            else:
                result.count("exceptions_raised_by_identity")
    # the runtime is left alone
    quiet = run.first("quiescent", gen=0)
    ended = run.first("accept-ended", gen=0)
    harness_stop = run.first("call", op="shutdown", by="harness", gen=0)
    if quiet is None or ended is None or harness_stop is None:
        early = ended and (ended["outcome"], ended.get("exc"), ended.get("msg"), ended.get("reach"))
        problems.append(("the runtime did not survive the execute calls: accept ended early %s" % (early,), None))
    else:
        if ended["outcome"] != "returned":
            problems.append(("after the execute calls accept ended with %s(%s) at shutdown: an outcome was recorded as a background failure"
                             % (ended.get("exc"), ended.get("msg")), None))
        for fl in common.COROUTINE:
            beats = [e for e in run.of("beat", gen=0, pid="heart_" + fl) if last_outcome < e["seq"] < harness_stop["seq"]]
            if not beats:
                problems.append(("the %s heartbeat payload stopped after the execute calls" % fl, None))
        cancelled = [e for e in run.of("cancelled", gen=0) if e["seq"] < harness_stop["seq"]]
        if cancelled:
            problems.append(("bystander %s was cancelled although no payload failed" % cancelled[0]["pid"], None))
        result.count("runtimes_alive_after_executes")
    return problems[:5]


def gen_restart(rnd, spec):
    """execute() keeps working after the same runner (or a new one) has been stopped and accepts again."""
    gens = []
    calls = []
    for g in range(rnd.choice([2, 3])):
        gen = {"accept_delay": 0.03, "payloads": [], "services": [], "grace": 0.15}
        script = [["wait_running", 10]]
        for fl in rnd.sample(common.FLAVOURS, 3):
            p = executed(rnd, "r%d_%s" % (g, fl), fl)
            p["outcome"] = ["return", rnd.choice(["str", "object", "dict"])]
            p["program"] = [["sleep", 0.005], p["outcome"]]
            gen["payloads"].append(p)
            script.append(["execute", p["id"]])
            calls.append(p["id"])
        script += [["shutdown"], ["expect_end", 8.0]]
        gen["script"] = script
        if g > 0 and rnd.random() < 0.7:
            gen["reuse_runner"] = True
        gens.append(gen)
    return {"watchdog": 40, "inject": common.inject_conf(rnd, 0.5), "generations": gens, "meta": {"kind": "restart", "calls": calls}}


def judge_restart(case, run, result):
    trouble = common.harness_trouble(run)
    if trouble:
        result.inconc(trouble)
        return []
    problems = []
    for g, gen in enumerate(case["generations"]):
        if run.first("running-observed", gen=g) is None:
            problems.append(("generation %d never reached running" % g, None))
            break
        for p in gen["payloads"]:
            outs = [e for e in run.events if e.get("gen") == g and e.get("op") == "execute" and e.get("pid") == p["id"] and e["kind"] in ("return", "raised")]
            starts = run.of("start", gen=g, pid=p["id"])
            what = None
            if len(outs) != 1:
                what = "never delivered an outcome"
            elif outs[0]["kind"] != "return" or not outs[0].get("same_object"):
                what = "gave the caller %s(%s) instead of the object the payload returned" % (outs[0].get("exc", "another object"), outs[0].get("msg", outs[0].get("repr")))
            elif len(starts) != 1:
                what = "ran the payload %d times" % len(starts)
            if what:
                problems.append(("generation %d%s: execute(%s, flavour=%s) %s" % (g, " (the same runner accepting again)" if gen.get("reuse_runner") else "", p["id"], p["flavour"], what), None))
            else:
                result.count("executes_after_a_restart" if g else "executes_judged")
                if g and gen.get("reuse_runner"):
                    result.count("executes_on_a_runner_accepting_again")
    return problems[:4]


def execute(case, result):
    run = common.run_and_observe(case, result)
    if case["meta"].get("kind") == "restart":
        return judge_restart(case, run, result), run
    return judge(case, run, result), run


def run_shard(spec):
    result = core.Result()
    only = spec.get("only_case")
    gen = {"known": gen_known, "restart": gen_restart}.get(spec["kind"], gen_case)
    for i in range(spec["n"]):
        if only is not None and i != only:
            continue
        case = gen(core.rng(PID, spec["seed"], spec["shard"], i), spec)
        problems, run = execute(case, result)
        result.case(common.sample(case, run, **{"calls": len(case["meta"]["calls"]), "direction": case["meta"].get("direction")}),
                    nontrivial=len(run.of("call", op="execute")) >= 2, key=common.shape(case) + str(case["meta"]))
        for what, mech in problems:
            clean = {k: v for k, v in spec.items() if k != "only_case"}
            result.violation(what, {"scenario": case, "run": run.witness()}, mech, spec=clean, case_id=i)
    return result


def finish(total, tier):
    need = ["executes_judged", "executes_of_builtin_callables", "executes_of_one_callable_by_several_callers_at_once", "results_returned_by_identity", "exceptions_raised_by_identity", "runtimes_alive_after_executes",
            "executes_asyncio_from_outside", "executes_trio_from_outside", "executes_threading_from_outside",
            "executes_asyncio_from_tcaller", "executes_trio_from_tcaller", "executes_trio_from_ccaller", "executes_asyncio_from_ccaller"]
    need += ["awaitable_results_returned_as_they_are_%s" % f for f in common.FLAVOURS]
    need += ["executes_of_callable_kind_%s" % k for k in ("function", "lambda", "wrapped", "partial", "object", "method", "prefixed", "marked")]
    need += ["executes_by_thread_payloads_queued_before_start", "synchronous_first_sections_checked", "executes_after_a_restart", "executes_on_a_runner_accepting_again"]
    for name in need:
        if not total.counters.get(name) and not total.violations:
            total.inconc("monitor never observed: " + name)
