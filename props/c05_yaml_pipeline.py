"""C05 - a YAML pipeline section builds the chain it describes.

Monitor: recording plugin classes (plugins/vplug.py, registered as real entry points)
append to a construction log; generated YAML documents go through the real load(); the
returned pipeline list and the log are compared with the configuration, and with the same
pipeline built in Python with >>.
"""
import os
import tempfile

from vlib import core, probe

PID = "C05"

META = {
    "level": "exploration",
    "engine": "E3 reference model through the real load() (entry-point plugins, construction log)",
    "rule": (
        "seeded random YAML documents: pipelines of 1-8 elements (and two of 1200-1500 elements per run), each independently a registered !Tag in "
        "mapping / sequence / bare form or a legacy __type__ mapping with keyword items (naming its class directly, through a namespace class, or by a classmethod constructor); argument values: "
        "scalars of every YAML type (plain, quoted, ints in several bases, floats, inf, bools, null, dates), "
        "nested lists and mappings (also keyed by numbers, booleans, null), anchors/aliases, merge keys (`<<`) whose values the element partly overrides, nested lazily and eagerly evaluated tags, helper objects written "
        "as nested __type__ mappings inside __type__ elements; elements whose truth value is False (`__bool__` / `__len__`); tail as "
        "template tag, as a tag that builds the pool while the YAML is read, or __type__; optional extra "
        "section and logging section; a third of the documents inject a constructor failure (8 exception types incl. KeyError, "
        "LookupError, AttributeError) at a random element. Reference for the decoded arguments: yaml.safe_load of the same argument text. "
        "Non-trivial = pipeline of >= 2 elements; distinct by document text."
    ),
    "assumptions": [
        "__type__ elements carry keyword items only (the statement's domain; __args__ would collide with the target)",
        "the reference for 'argument values expressible in YAML' is PyYAML's own safe_load of the same text",
    ],
    "shard_timeout": {"quick": 300, "thorough": 1800},
}


def plan(tier, seed):
    return core.shards(seed, 30000 if tier == "thorough" else 1000, 16 if tier == "thorough" else 8)


# ------------------------------------------------------------------------------ value generator
SCALARS = [
    "1", "-7", "0x1F", "0o17", "1_000", "2.5", "-0.0", "1e3", ".inf", "-.inf", "true", "false", "yes", "No", "~", "null",
    "2001-12-14", "!!binary aGVsbG8=", "!!omap [a: 1, b: 2]", "!!pairs [a: 1, a: 2]", "!!set {x, y}", "2001-12-14 21:59:43", "plain text", "'single quoted'", '"double \\" quoted é"', "''", "a:b", "'__type__'", '"🚀"', "007", "1.0.0",
    # words of the configuration language itself, as plain text
    "pipeline", "main-pipeline", "/etc/cobald/pipeline.yaml", "[pipeline, site]", "'__args__'", "logging",
]
KEYS = ["a", "b", "c", "key", "interval", "rate", "x1", "name", "deep", "items", "label"]


class Nested:
    """A nested tag inside an element's arguments."""

    def __init__(self, tag, form, value):
        self.tag, self.form, self.value = tag, form, value


def gen_value(rnd, depth=0, allow_tag=True, allow_type=False):
    k = rnd.random()
    if allow_type and depth < 3 and k < 0.12:
        # a helper object written as a nested legacy __type__ mapping (translated only inside __type__ elements)
        keys = rnd.sample(KEYS, rnd.randint(0, 2))
        return ("typed", [(key, gen_value(rnd, depth + 1, allow_tag, allow_type)) for key in keys])
    if depth >= 3 or k < 0.45:
        return ("scalar", rnd.choice(SCALARS))
    if k < 0.65:
        return ("list", [gen_value(rnd, depth + 1, allow_tag, allow_type) for _ in range(rnd.randint(0, 3))])
    if k < 0.85 or not allow_tag:
        keys = rnd.sample(KEYS, rnd.randint(0, 3))
        if rnd.random() < 0.15:
            keys += rnd.sample(["1", "10", "2.5", "true", "~", "-3"], rnd.randint(1, 2))  # a table keyed by numbers, booleans, null
        return ("map", [(key, gen_value(rnd, depth + 1, allow_tag, allow_type)) for key in keys])
    tag = rnd.choice(["VSnapLazy", "VSnapEager"])
    form = rnd.choice(["map", "list", "bare"])
    if form == "map":
        value = [(key, gen_value(rnd, depth + 1, allow_tag)) for key in rnd.sample(KEYS, rnd.randint(1, 3))]
    elif form == "list":
        value = [gen_value(rnd, depth + 1, allow_tag) for _ in range(rnd.randint(1, 3))]
    else:
        value = None
    return ("tag", tag, form, value)


def emit(value, placeholder):
    """Flow-style YAML text of a generated value; nested tags replaced if `placeholder`."""
    kind = value[0]
    if kind == "scalar":
        return value[1]
    if kind == "list":
        return "[" + ", ".join(emit(v, placeholder) for v in value[1]) + "]"
    if kind == "map":
        return "{" + ", ".join("%s: %s" % (k, emit(v, placeholder)) for k, v in value[1]) + "}"
    if kind == "typed":
        items = ["%s: %s" % (k, emit(v, placeholder)) for k, v in value[1]]
        if placeholder:
            return "{__nested__: VSnapType, form: map, value: {%s}}" % ", ".join(items)
        return "{" + ", ".join(["__type__: vplug.snap_type"] + items) + "}"
    if kind == "alias":
        return "*" + value[1]
    if kind == "rec":  # a value that holds itself: YAML can express it, lazily evaluated tags receive it
        if value[2] == "list":
            return "&%s [1, *%s, {deep: *%s}]" % (value[1], value[1], value[1])
        return "&%s {me: *%s, k: 2, items: [*%s]}" % (value[1], value[1], value[1])
    if kind == "anchor":
        return "&%s %s" % (value[1], emit(value[2], placeholder))
    _, tag, form, inner = value
    if form == "map":
        body = "{" + ", ".join("%s: %s" % (k, emit(v, placeholder)) for k, v in inner) + "}"
    elif form == "list":
        body = "[" + ", ".join(emit(v, placeholder) for v in inner) + "]"
    else:
        body = ""
    if placeholder:
        return "{__nested__: %s, form: %s, value: %s}" % (tag, form, body or "null")
    return "!%s %s" % (tag, body)  # a bare tag keeps its trailing space: "!Tag ]" would not scan


def gen_element(rnd, position, n):
    tail = position == n - 1
    if tail:
        cls = rnd.choice(["VPool", "VPool", "VPoolNow", "VPoolEmpty"])  # VPoolEmpty, VDecoFalsy: objects whose truth value is False
    else:
        cls = rnd.choice(["VCtrl", "VDeco", "VDeco2", "VDecoFalsy"]) if position == 0 else rnd.choice(["VDeco", "VDeco2", "VDecoFalsy"] * 3 + ["VCtrl"])  # now and then a stage that is not a pool itself
    syntax = rnd.choice(["tag", "tag", "type"]) if cls != "VPoolNow" else "tag"
    if not tail and rnd.random() < 0.08:
        cls, syntax = "VDecoKw", "type"  # its target is keyword-only: only the all-keyword __type__ syntax can place it
    form = rnd.choice(["map", "list", "bare"]) if syntax == "tag" else "map"
    args, kwargs = [], []
    if form == "map":
        keys = rnd.sample(KEYS, rnd.randint(0 if syntax == "type" else 1, 4))
        kwargs = [(k, gen_value(rnd, allow_tag=True, allow_type=syntax == "type")) for k in keys]
        if rnd.random() < 0.15:
            # a YAML merge key: shared settings, some of them overridden by the element's own keys
            own = [k for k, _ in kwargs]
            def shared():
                ks = rnd.sample(KEYS, rnd.randint(1, 3)) + (rnd.sample(own, 1) if own and rnd.random() < 0.7 else [])
                return ("map", [(k, ("scalar", rnd.choice(SCALARS[:17]))) for k in dict.fromkeys(ks)])
            merged = shared() if rnd.random() < 0.6 else ("list", [shared(), shared()])
            kwargs.insert(rnd.randint(0, len(kwargs)), ("<<", merged))
        elif len(kwargs) >= 2 and rnd.random() < 0.2:  # anchor / alias within one element
            k0, v0 = kwargs[0]
            kwargs[0] = (k0, ("anchor", "anc%d" % position, v0))
            kwargs[1] = (kwargs[1][0], ("alias", "anc%d" % position))
    elif form == "list":
        args = [gen_value(rnd, allow_tag=True) for _ in range(rnd.randint(1, 3))]
    if syntax == "tag" and cls != "VPoolNow" and form in ("map", "list") and rnd.random() < 0.08:
        rec = ("rec", "rec%d" % position, rnd.choice(["list", "map"]))
        if form == "map":
            free = [k for k in KEYS if k not in [k0 for k0, _ in kwargs]]
            kwargs.append((rnd.choice(free), rec))
        else:
            args.insert(rnd.randint(0, len(args)), rec)
    # how a __type__ element names its class: directly, through a namespace class, or by an alternative constructor
    typename = rnd.choice(["vplug.%s", "vplug.%s", "vplug.Site.%s", "vplug.%s.build"]) % cls
    if tail and syntax == "type" and rnd.random() < 0.3:
        typename = "vplug.%s.s" % cls  # a pool named by its template factory: what it yields is constructed like a !Tag's template
    return {"cls": cls, "syntax": syntax, "form": form, "args": args, "kwargs": kwargs, "typename": typename}


def element_text(e, placeholder=False):
    if e.get("alias") and not placeholder:
        return "*" + e["alias"]  # the element written once more, as an alias of an anchored one
    if e.get("anchor") and not placeholder:
        return "&%s %s" % (e["anchor"], element_text(dict(e, anchor=None)))
    if e["syntax"] == "type":
        items = ["__type__: %s" % e.get("typename", "vplug.%s" % e["cls"])] + ["%s: %s" % (k, emit(v, placeholder)) for k, v in e["kwargs"]]
        return "{" + ", ".join(items) + "}"
    if e["form"] == "map":
        body = "{" + ", ".join("%s: %s" % (k, emit(v, placeholder)) for k, v in e["kwargs"]) + "}"
    elif e["form"] == "list":
        body = "[" + ", ".join(emit(v, placeholder) for v in e["args"]) + "]"
    else:
        body = ""
    if placeholder:
        return body or "null"
    return ("!%s %s" % (e.get("tagname") or e["cls"], body)).strip()


def gen_case(rnd, spec):
    n = rnd.choice([1, 2, 2, 3, 3, 4, 5, 6, 8])
    if spec.get("case_index") == 0 and spec.get("shard") in (0, 1):
        n = rnd.choice([1200, 1500])  # one very long pipeline per run: far beyond Python's recursion limit
    elements = [gen_element(rnd, i, n) for i in range(n)]
    if 3 <= n < 1000 and rnd.random() < 0.12:
        # one stage configured once and used twice: an anchored element and an alias of it (each occurrence is a stage of its own)
        i = rnd.randrange(n - 1)
        if elements[i]["cls"] == "VCtrl" and elements[1]["cls"] != "VCtrl":
            i = 1  # repeat a decorator rather than a controller
        j = rnd.randint(i + 1, n - 1)
        keys = rnd.sample(KEYS, rnd.randint(1, 3))
        elements[i] = dict(elements[i], form="map", args=[], kwargs=[(k, ("scalar", rnd.choice(SCALARS[:17]))) for k in keys], anchor="stage%d" % i)
        elements.insert(j, dict(elements[i], anchor=None, alias="stage%d" % i))
        n += 1
    late = [e for e in elements if e["syntax"] == "tag" and e["cls"] in ("VDeco", "VDeco2") and not e.get("alias") and not e.get("anchor")]
    if late and n < 1000 and rnd.random() < 0.12:
        # a tag that is registered on the loader class only now, after earlier configurations have been loaded
        rnd.choice(late)["tagname"] = "VLate%d" % rnd.randint(0, 10**6)
    fail_at = None
    if rnd.random() < 0.33:
        fail_at = rnd.randint(1, n)  # the k-th construction (from the tail) fails
    if n >= 1000:
        fail_at = None
    return {
        "elements": elements,
        "fail_at": fail_at,
        "fail_type": rnd.choice(["Injected", "KeyError", "ValueError", "AttributeError", "LookupError", "RuntimeError", "OSError", "IndexError", "StopIteration", "StopIteration", "StopAsyncIteration", "AssertionError"]),
        "extra": rnd.choice([None, None, "{a: 1, b: [x, y]}", "[1, 2]"]),
        "logging": rnd.random() < 0.25,
        "suffix": rnd.choice([".yaml", ".yml"]),
        "reload": rnd.random() < 0.1,
    }


def document(case):
    lines = []
    if case["logging"]:
        lines.append("logging: {version: 1}")
    lines.append("pipeline:")
    for e in case["elements"]:
        lines.append("  - " + element_text(e))
    if case["extra"]:
        lines.append("vextra: " + case["extra"])
    return "\n".join(lines) + "\n"


# ------------------------------------------------------------------------------ oracle
ON_PATH = {}  # id(configured container) -> id(received container) for the containers being compared right now
SNAPSHOT_OWNERS = {}  # id(nested object) -> (id(reference placeholder), path): reset per document


def compare(actual, expected, eager_seen, problems, path):
    """actual: what the constructor recorded; expected: safe_load of the placeholder text."""
    import vplug

    if isinstance(expected, dict) and "__nested__" in expected:
        if not isinstance(actual, vplug.Snapshot) or actual.tag != expected["__nested__"]:
            problems.append("%s: expected an object built by !%s, got %r" % (path, expected["__nested__"], actual))
            return
        # every tag written in the document builds an object of its own (an alias, and only an alias, shares one)
        owner = SNAPSHOT_OWNERS.setdefault(id(actual), (id(expected), path))
        if owner[0] != id(expected):
            problems.append("%s: the object built for this !%s is the very object built for the tag at %s" % (path, expected["__nested__"], owner[1]))
        want_args, want_kwargs = [], {}
        if expected["form"] == "map":
            want_kwargs = expected["value"]
        elif expected["form"] == "list":
            want_args = expected["value"]
        compare(list(actual.final_args), want_args, eager_seen, problems, path + "!args")
        compare(dict(actual.final_kwargs), want_kwargs, eager_seen, problems, path + "!kwargs")
        if actual.tag == "VSnapEager":
            before = len(problems)
            compare(list(actual.orig[0]), want_args, eager_seen, problems, path + "!args-at-call")
            compare(dict(actual.orig[1]), want_kwargs, eager_seen, problems, path + "!kwargs-at-call")
            eager_seen.append(len(problems) == before)
        return
    if isinstance(expected, (dict, list)) and id(expected) in ON_PATH:
        # the configured value holds itself: so must the received one, at the same place
        if id(actual) != ON_PATH[id(expected)]:
            problems.append("%s: the configured value holds itself here, the constructor received another object (%.80r)" % (path, actual))
        return
    if isinstance(expected, dict):
        if type(actual) is not dict or set(actual) != set(expected):
            problems.append("%s: configured mapping %.200r, constructor received %.200r" % (path, expected, actual))
            return
        ON_PATH[id(expected)] = id(actual)
        try:
            for k in expected:
                compare(actual[k], expected[k], eager_seen, problems, "%s.%s" % (path, k))
        finally:
            del ON_PATH[id(expected)]
    elif isinstance(expected, list):
        if type(actual) is not list or len(actual) != len(expected):
            problems.append("%s: configured list %.200r, constructor received %.200r" % (path, expected, actual))
            return
        ON_PATH[id(expected)] = id(actual)
        try:
            for i, item in enumerate(expected):
                compare(actual[i], item, eager_seen, problems, "%s[%d]" % (path, i))
        finally:
            del ON_PATH[id(expected)]
    else:
        same = type(actual) is type(expected) and (actual == expected or (actual != actual and expected != expected))
        if not same:
            problems.append("%s: configured %r, constructor received %r" % (path, expected, actual))


def expected_args(e):
    import yaml

    text = element_text(e, placeholder=True)
    data = yaml.safe_load("v: " + text)["v"]
    if e["syntax"] == "type":
        data = dict(data)
        data.pop("__type__", None)
        return [], data
    if e["form"] == "map":
        return [], data
    if e["form"] == "list":
        return data, {}
    return [], {}


def realise(value, memo=None):
    """Reference decoding -> real argument values (placeholders become nested tag objects)."""
    import vplug

    memo = {} if memo is None else memo
    if id(value) in memo:
        return memo[id(value)]
    memo.setdefault("alive", []).append(value)
    if isinstance(value, dict) and "__nested__" in value:
        factory = {"VSnapLazy": vplug.snap_lazy, "VSnapEager": vplug.snap_eager, "VSnapType": vplug.snap_type}[value["__nested__"]]
        inner = realise(value["value"], memo)
        if value["form"] == "map":
            return factory(**inner)
        if value["form"] == "list":
            return factory(*inner)
        return factory()
    if isinstance(value, dict):
        out = memo[id(value)] = {}
        out.update((k, realise(v, memo)) for k, v in value.items())
        return out
    if isinstance(value, list):
        out = memo[id(value)] = []
        out.extend(realise(v, memo) for v in value)
        return out
    return value


def python_pipeline(case, grouping="right"):
    """The same pipeline built in Python with >> (arguments taken from the reference decoding).

    grouping "right": a >> (b >> (c >> pool)), the way the loader binds; "left": a >> b >> c >> pool as one writes it.
    """
    import vplug

    templates = []
    for e in case["elements"]:
        args, kwargs = expected_args(e)
        cls = getattr(vplug, "VPool" if e["cls"] == "VPoolNow" else e["cls"])
        templates.append(cls.s(*realise(args), **realise(kwargs)))
    if grouping == "left":
        chain = templates[0]
        for tmpl in templates[1:-1]:
            chain = chain >> tmpl
        tail = templates[-1].__construct__()
        return tail if len(templates) == 1 else chain >> tail
    chain = None
    for tmpl in reversed(templates):
        chain = tmpl.__construct__() if chain is None else tmpl >> chain
    return chain


def execute(case, result):
    import vplug
    from cobald.daemon.core.config import load
    from cobald.interfaces import Partial

    text = document(case)
    n = len(case["elements"])
    now_tail = case["elements"][-1]["cls"] == "VPoolNow"
    with tempfile.NamedTemporaryFile("w", suffix=case["suffix"], prefix="cobald-verif-", delete=False) as f:
        f.write(text)
        path = f.name
    if case.get("reload"):
        # the plugin module was loaded anew since the last configuration (an upgrade, a test run): names mean what they mean now
        import importlib

        importlib.reload(vplug)
        result.count("documents_loaded_after_the_plugin_module_was_reloaded")
    for e in case["elements"]:
        if e.get("tagname"):
            from cobald.daemon.core.config import COBalDLoader, yaml_constructor

            COBalDLoader.add_constructor("!" + e["tagname"], yaml_constructor(getattr(vplug, e["cls"]).s))
            result.count("documents_using_a_tag_registered_after_earlier_loads")
    vplug.reset(fail_at=case["fail_at"], fail_type=case.get("fail_type", "Injected"))
    err, config = None, None
    try:
        with load(path) as config:
            pass
    except Exception as e:  # noqa: B902 - any exception from loading is an outcome to judge
        err = e
    finally:
        os.unlink(path)
    log = list(vplug.LOG)
    attempts = vplug.STATE["attempts"]
    vplug.STATE["fail_at"] = None
    problems = []
    if case["fail_at"] is not None:
        result.count("documents_with_failing_constructor")
        result.count("failing_constructor_raising_%s" % case.get("fail_type", "Injected"))
        k = case["fail_at"]
        if err is None:
            problems.append("constructor %d (from the tail) failed but load() returned %r" % (k, config))
        if len(log) != k - 1 or attempts != k:
            problems.append("constructor %d of %d failed: %d objects constructed in %d attempts (expected %d, %d)"
                            % (k, n, len(log), attempts, k - 1, k))
        else:
            # the ones that were constructed are the last k-1 elements, last to first
            for j, obj in enumerate(log):
                e = case["elements"][n - 1 - j]
                want = "VPool" if e["cls"] == "VPoolNow" else e["cls"]
                if type(obj).__name__ != want:
                    problems.append("construction %d built a %s, expected %s" % (j, type(obj).__name__, want))
        return [(p + "\n" + text, None) for p in problems[:3]]
    result.count("documents_valid")
    if n >= 1000:
        result.count("pipelines_of_more_than_1000_elements")
    if err is not None:
        return [("valid document rejected: %r\n%s" % (err, text), None)]
    pipeline = None
    for plugin, content in config.items():
        if plugin.section == "pipeline":
            pipeline = content
        if plugin.section == "vextra":
            result.count("extra_sections_digested")
    if case["extra"] and len(vplug.EXTRA) != 1:
        problems.append("extra section digested %d times" % len(vplug.EXTRA))
    if not isinstance(pipeline, list) or len(pipeline) != n:
        return [("pipeline section gave %r, expected a list of %d objects\n%s" % (pipeline, n, text), None)]
    SNAPSHOT_OWNERS.clear()
    # every element was constructed in this load, once, last to first
    if [id(o) for o in log] != [id(o) for o in reversed(pipeline)]:
        problems.append("the objects constructed by this load %r are not the pipeline's elements last to first %r"
                        % ([type(o).__name__ for o in log], [type(o).__name__ for o in reversed(pipeline)]))
    else:
        result.count("construction_logs_matching_the_pipeline")
    eager_seen = []
    for i, (obj, e) in enumerate(zip(pipeline, case["elements"])):
        want = "VPool" if e["cls"] == "VPoolNow" else e["cls"]
        if isinstance(obj, Partial) or type(obj).__name__ != want:
            problems.append("element %d is %r, configured %s" % (i, obj, want))
            continue
        if type(obj) is not getattr(vplug, want):
            problems.append("element %d is an instance of a class called %s, but not of the class that vplug.%s names now" % (i, want, want))
            continue
        if i < n - 1 and getattr(obj, "target", None) is not pipeline[i + 1]:
            problems.append("element %d: target is %r, not the next element %r" % (i, getattr(obj, "target", None), pipeline[i + 1]))
        args, kwargs = expected_args(e)
        if any(k == "<<" for k, _ in e["kwargs"]):
            result.count("elements_with_merge_key")
        if e.get("alias"):
            result.count("elements_written_as_an_alias_of_an_anchored_element")
        if not obj:
            result.count("elements_whose_truth_value_is_false")
        if any(v[0] == "rec" for v in list(e["args"]) + [v for _, v in e["kwargs"]]):
            result.count("elements_with_an_argument_that_holds_itself")
        compare(list(obj.args), args, eager_seen, problems, "element %d args" % i)
        compare(dict(obj.kwargs), kwargs, eager_seen, problems, "element %d kwargs" % i)
        if e["syntax"] == "type" and e.get("typename", "").count(".") >= 2:
            result.count("type_elements_named_below_a_class")
        if e["cls"] == "VDecoKw":
            result.count("type_elements_whose_target_is_keyword_only")
        if e["syntax"] == "type" and e.get("typename", "").endswith(".s"):
            result.count("tail_type_elements_naming_a_template_factory")
        if e["cls"] == "VPoolNow":
            result.count("tails_built_while_reading")
            compare(list(obj.seen_at_call[0]), args, [], problems, "element %d args at call time (eager tag)" % i)
            compare(dict(obj.seen_at_call[1]), kwargs, [], problems, "element %d kwargs at call time (eager tag)" % i)
        result.count("elements_%s_%s" % (e["syntax"], e["form"]))
        if "snap_type" in element_text(e):
            result.count("elements_with_nested_type_helper")
    result.count("nested_eager_tags_checked", len(eager_seen))
    want_log = list(reversed(pipeline))
    if len(log) != n or any(a is not b for a, b in zip(log, want_log)):
        problems.append("construction log %r, expected each element once, last to first"
                        % [type(o).__name__ for o in log])
    if now_tail and not problems and log[0] is not pipeline[-1]:
        problems.append("eagerly built tail is not the first construction")
    # the same pipeline built in Python with >>
    for grouping in ("right", "left"):
        if problems or any(e["cls"] == "VDecoKw" for e in case["elements"]):
            break  # (>> hands the target over positionally: a keyword-only target has no >> twin)
        vplug.reset()
        try:
            twin = python_pipeline(case, grouping)
        except Exception as e:  # noqa: B902
            problems.append("building the same pipeline with >> (grouped to the %s) raised %r" % (grouping, e))
        else:
            obj = twin
            for i, mine in enumerate(pipeline):
                if type(obj) is not type(mine):
                    problems.append("element %d: YAML gives %s, >> (grouped to the %s) gives %s" % (i, type(mine).__name__, grouping, type(obj).__name__))
                    break
                sub = []
                compare(_plain(mine.args), _plain(obj.args), [], sub, "element %d args vs >> (grouped to the %s)" % (i, grouping))
                compare(_plain(mine.kwargs), _plain(obj.kwargs), [], sub, "element %d kwargs vs >> (grouped to the %s)" % (i, grouping))
                problems += sub
                obj = getattr(obj, "target", None)
            result.count("pipelines_compared_with_rshift")
            if grouping == "left" and n >= 5:
                result.count("pipelines_of_5_or_more_compared_with_left_grouped_rshift")
    return [(p + "\n" + text, None) for p in problems[:3]]


def _plain(value, memo=None):
    """Snapshots -> comparable plain data."""
    import vplug

    memo = {} if memo is None else memo
    if id(value) in memo:
        return memo[id(value)]
    memo.setdefault("alive", []).append(value)  # ids stay unique while the memo is in use
    if isinstance(value, vplug.Snapshot):
        return {"__snap__": value.tag, "args": _plain(list(value.final_args), memo), "kwargs": _plain(dict(value.final_kwargs), memo)}
    if isinstance(value, dict):
        out = memo[id(value)] = {}
        out.update((k, _plain(v, memo)) for k, v in value.items())
        return out
    if isinstance(value, (list, tuple)):
        out = memo[id(value)] = []
        out.extend(_plain(v, memo) for v in value)
        return out
    return value


def run_shard(spec):
    result = core.Result()
    pr = probe.LineProbe("daemon/core/config.py", "daemon/config/yaml.py", "daemon/config/mapping.py").start()
    try:
        core.drive(PID, spec, gen_case, execute, result,
                   nontrivial=lambda c: len(c["elements"]) >= 2, key=document)
    finally:
        pr.stop()
    pr.record(result)
    return result


def finish(total, tier):
    for name in ("documents_valid", "documents_with_failing_constructor", "elements_tag_map", "elements_tag_list", "elements_tag_bare",
                 "elements_type_map", "nested_eager_tags_checked", "tails_built_while_reading", "pipelines_compared_with_rshift", "type_elements_whose_target_is_keyword_only", "documents_using_a_tag_registered_after_earlier_loads", "tail_type_elements_naming_a_template_factory", "elements_written_as_an_alias_of_an_anchored_element", "documents_loaded_after_the_plugin_module_was_reloaded", "pipelines_of_5_or_more_compared_with_left_grouped_rshift", "elements_with_an_argument_that_holds_itself",
                 "extra_sections_digested", "elements_with_nested_type_helper", "failing_constructor_raising_KeyError", "elements_with_merge_key", "elements_whose_truth_value_is_false", "type_elements_named_below_a_class", "pipelines_of_more_than_1000_elements", "construction_logs_matching_the_pipeline"):
        if not total.counters.get(name) and not total.violations:
            total.inconc("monitor never observed: " + name)
