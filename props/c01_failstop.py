"""C01 - background failures always stop the daemon (fail-stop, never silent).

Monitor (E1): real ServiceRunner, accept() in the main thread of a scenario process; payloads
log `fail` right before raising / returning; the harness logs how accept ended and decides
in-process whether the raised RuntimeError's cause (through exception groups) is the very
exception object / an OrphanedReturn carrying the very value of one of the failed payloads.
"""
from vlib import core
from vlib.rt import common

PID = "C01"

META = {
    "level": "fault_enumeration",
    "engine": "E1 runtime scenario engine",
    "rule": (
        "kind=product: systematic product of flavour (3) x failure kind (12 Exception subclasses (also raised by the *call* of the payload, before any coroutine exists) incl. exceptions "
        "with mandatory arguments, exception groups, TimeoutError, StopIteration for thread payloads; 3-4 "
        "BaseException subclasses; 13 non-None return values incl. every falsy one) x registration (queued before "
        "start; adopted after start from an outside thread / from inside a payload of each flavour; run() of a "
        "service created before / after start / inside a payload) x failing at the first step or after a delay "
        "(quick: a seeded slice; thorough: all, under several injection seeds); kind=random: 0-5 bystanders of "
        "mixed flavour and state and 1-3 payloads failing within the same few milliseconds in the same or "
        "different flavours, line-level delay injection, a fifth of them driving a bare MetaRunner; kind=pending: a payload fails 50 ms after shutdown() was called but half a second before the accept loop (accept_delay 1 s) looks at the request - judged only if the runner still reported accepting at the failure and its accept loop was cancelled by the failure rather than stopping on request (its own log says which); kind=rerun: the "
        "same runner instance runs a second time with a failing payload queued between the runs; kind=control: no failing payload - payloads ending "
        "with None must not stop the runtime. Non-trivial = a `fail` event was observed; distinct by scenario."
    ),
    "assumptions": [
        "a payload raising its own framework's cancellation exception is indistinguishable from being cancelled and is not a failure kind",
        "coroutine payloads cannot raise StopIteration (PEP 479); it is generated for thread payloads only",
        "'never keeps running' is restated as: accept ends within 6 s of the logged failure (normal latency < 0.3 s)",
        "KeyboardInterrupt is not a failure kind here (C12)",
    ],
    "shard_timeout": {"quick": 900, "thorough": 3600},
}
PATIENCE = 6.0
REGISTRATIONS = ["queued", "outside", "from_asyncio", "from_trio", "from_thread", "service_before", "service_after", "service_inside"]


def failure_kinds(flavour):
    kinds = [("raise", k, "exception") for k in common.EXC_KINDS]
    if flavour == "threading":
        kinds.append(("raise", "StopIteration", "exception"))
        kinds.append(("raise", "EndOfStream", "exception"))  # a subclass of StopIteration
    base = list(common.BASE_KINDS)
    if flavour != "asyncio":
        base.append("AsyncioCancelledError")
    kinds += [("raise", k, "base") for k in base]
    kinds += [("return", k, "exception") for k in common.RETURN_KINDS]
    # the *call* of the payload raises: no coroutine / no first step ever exists
    kinds += [("call_raises", k, "exception") for k in ("TypeError", "ValueError")]
    return kinds


def product():
    cases = []
    for flavour in common.FLAVOURS:
        for how, what, cls in failure_kinds(flavour):
            for reg in REGISTRATIONS:
                for delayed in (False, True):
                    cases.append((flavour, how, what, cls, reg, delayed))
    return cases


def plan(tier, seed):
    total = len(product())
    if tier == "thorough":
        specs = [dict(seed=seed, shard="product-%d" % i, kind="product", part=i, parts=12, repeat=3, n=1) for i in range(12)]
        specs += [dict(seed=seed, shard="random-%d" % i, kind="random", n=90) for i in range(16)]
        specs += [dict(seed=seed, shard="control-%d" % i, kind="control", n=20) for i in range(4)]
        specs += [dict(seed=seed, shard="rerun-%d" % i, kind="rerun", n=30) for i in range(4)]
        specs += [dict(seed=seed, shard="pending-%d" % i, kind="pending", n=10) for i in range(4)]
        specs += [dict(seed=seed, shard="known", kind="known", n=2), dict(seed=seed, shard="mixed", kind="mixed", n=30), dict(seed=seed, shard="adopting", kind="adopting", n=20), dict(seed=seed, shard="slowclean", kind="slowclean", n=4), dict(seed=seed, shard="dependent", kind="dependent", n=12)]
    else:
        specs = [dict(seed=seed, shard="product-%d" % i, kind="product", part=i, parts=8, stride=9, repeat=1, n=1) for i in range(8)]
        specs += [dict(seed=seed, shard="random-%d" % i, kind="random", n=8) for i in range(6)]
        specs += [dict(seed=seed, shard="control-0", kind="control", n=6)]
        specs += [dict(seed=seed, shard="rerun-%d" % i, kind="rerun", n=6) for i in range(2)]
        specs += [dict(seed=seed, shard="pending-%d" % i, kind="pending", n=2) for i in range(3)]
        specs += [dict(seed=seed, shard="known", kind="known", n=1), dict(seed=seed, shard="mixed", kind="mixed", n=3), dict(seed=seed, shard="adopting", kind="adopting", n=3), dict(seed=seed, shard="slowclean", kind="slowclean", n=1), dict(seed=seed, shard="dependent", kind="dependent", n=3)]
    del total
    return specs


def failing_payload(pid, flavour, how, what, delayed, cleanup=None):
    if how == "call_raises":
        return {"id": pid, "flavour": flavour, "program": [], "call_raises": what, "cleanup": {"kind": "none"}}
    program = ([["sleep", 0.04]] if delayed else []) + [[how, what]]
    return {"id": pid, "flavour": flavour, "program": program, "cleanup": cleanup or {"kind": "none"}}


def place(gen, script, payload, reg, rnd):
    """Register `payload` in generation `gen` according to `reg`."""
    pid = payload["id"]
    if reg == "queued":
        payload["when"] = "queued"
        gen["payloads"].append(payload)
    elif reg == "outside":
        gen["payloads"].append(payload)
        script.append(["adopt", pid])
    elif reg in ("from_asyncio", "from_trio", "from_thread"):
        via = {"from_asyncio": "asyncio", "from_trio": "trio", "from_thread": "threading"}[reg]
        gen["payloads"].append(payload)
        carrier = {"id": "carrier-%s" % pid, "flavour": via, "when": rnd.choice(["queued", "running"]),
                   "program": [["sleep", 0.01], ["adopt", pid], ["beat", 0.02, None]], "cleanup": {"kind": "none"}}
        gen["payloads"].append(carrier)
        if carrier["when"] == "running":
            script.append(["adopt", carrier["id"]])
    else:
        svc = {"id": pid, "flavour": payload["flavour"], "program": payload["program"]}
        if payload.get("call_raises"):  # a service's run is a method of the harness class: raise at its first step instead
            svc["program"] = [["raise", payload["call_raises"]]]
        if reg == "service_before":
            svc["create"] = "before"
        elif reg == "service_after":
            script.append(["service", pid])
        else:
            via = rnd.choice(common.FLAVOURS)
            carrier = {"id": "carrier-%s" % pid, "flavour": via, "when": "queued",
                       "program": [["sleep", 0.01], ["service", pid], ["beat", 0.02, None]], "cleanup": {"kind": "none"}}
            gen["payloads"].append(carrier)
        gen["services"].append(svc)


def gen_product_case(rnd, item):
    flavour, how, what, cls, reg, delayed = item
    gen = {"accept_delay": rnd.choice([0.02, 0.05]), "payloads": [], "services": [], "grace": 0.25}
    script = [["wait_running", 8]]
    place(gen, script, failing_payload("f0", flavour, how, what, delayed), reg, rnd)
    for i in range(rnd.choice([0, 0, 1, 2])):
        b = common.bystander(rnd, "b%d" % i)
        gen["payloads"].append(b)
        if b["when"] == "running":
            script.insert(1, ["adopt", b["id"]])
    script.append(["expect_end", PATIENCE])
    gen["script"] = script
    return {"watchdog": 25, "inject": common.inject_conf(rnd, 0.5), "generations": [gen],
            "meta": {"kind": "product", "fail": [[flavour, how, what, cls, reg, delayed]]}}


def gen_random_case(rnd, spec):
    gen = {"accept_delay": rnd.choice([0.02, 0.05, 0.1]), "payloads": [], "services": [], "grace": 0.25}
    meta_mode = rnd.random() < 0.2  # MetaRunner.run() driven directly: no service loop, hence no services
    if meta_mode:
        gen["mode"] = "meta"
    script = [["wait_running", 8]]
    crowd = rnd.choice([None, None, "asyncio", "trio", "threading"])  # many bystanders of one flavour
    for i in range(rnd.randint(5, 12) if crowd else rnd.randint(0, 5)):
        b = common.bystander(rnd, "b%d" % i, flavour=crowd)
        gen["payloads"].append(b)
        if b["when"] == "running":
            script.append(["adopt", b["id"]])
    if not meta_mode and rnd.random() < 0.2:
        # trio bystanders that keep calling into the asyncio runner: one of them is usually inside execute() when the failure comes
        for i in range(rnd.randint(1, 2)):
            gen["payloads"].append({"id": "xs%d" % i, "flavour": "asyncio", "executed": True, "cleanup": {"kind": "none"},
                                    "program": [["sleep", rnd.choice([0.01, 0.03])], ["return", "none"]]})
            gen["payloads"].append({"id": "cross%d" % i, "flavour": "trio", "cleanup": {"kind": "none"},
                                    "program": [["sleep", 0.01], ["exec_loop", "xs%d" % i, 300, 0.0]]})
            script.append(["adopt", "cross%d" % i])
        gen.setdefault("tags", []).append("cross")
    if rnd.random() < 0.25:
        # bystanders waiting for a job in the event loop's default executor (a blocking library call handed to a worker thread)
        for i in range(rnd.randint(1, 3)):
            gen["payloads"].append({"id": "exjob%d" % i, "flavour": "asyncio", "when": rnd.choice(["queued", "running"]), "program": [["executor_job"]], "cleanup": {"kind": "none"}})
            if gen["payloads"][-1]["when"] == "running":
                script.append(["adopt", "exjob%d" % i])
        gen.setdefault("tags", []).append("executor_jobs")
    nfail = rnd.choice([1, 2, 2, 3])
    fails = []
    delayed = rnd.random() < 0.8
    for i in range(nfail):
        flavour = crowd if crowd and rnd.random() < 0.7 else rnd.choice(common.FLAVOURS)
        how, what, cls = rnd.choice(failure_kinds(flavour))
        if rnd.random() < 0.75:  # mostly the kinds with the strong clause
            how, what, cls = rnd.choice([k for k in failure_kinds(flavour) if k[2] == "exception"])
        reg = rnd.choice([r for r in REGISTRATIONS if not (meta_mode and r.startswith("service"))])
        if reg == "from_asyncio" and flavour == "trio" and "cross" in gen.get("tags", []):
            # no submission into trio from the asyncio thread while trio payloads may be blocked in execute(flavour=asyncio):
            # the two loops then wait for each other (the recorded finding C03/adopt-trio-blocks-on-busy-trio-thread, judged there)
            reg = "from_thread"
        place(gen, script, failing_payload("f%d" % i, flavour, how, what, delayed), reg, rnd)
        fails.append([flavour, how, what, cls, reg, delayed])
    script.append(["expect_end", PATIENCE])
    gen["script"] = script
    return {"watchdog": 25, "inject": common.inject_conf(rnd, 0.8), "generations": [gen], "meta": {"kind": "random", "fail": fails, "meta_runner": meta_mode}}


def gen_rerun_case(rnd, spec):
    first = {"accept_delay": 0.03, "payloads": [common.bystander(rnd, "b0", when="queued")], "services": [], "grace": 0.2,
             "mode": rnd.choice(["meta", None]), "script": [["wait_running", 8], ["sleep", 0.1]]}
    if rnd.random() < 0.4:  # the first run ends by a failure instead of a shutdown
        first["payloads"].append({"id": "first_fail", "flavour": rnd.choice(common.FLAVOURS), "program": [["raise", "LookupError"]], "when": "queued", "cleanup": {"kind": "none"}})
        first["script"] = [["wait_running", 8], ["expect_end", PATIENCE]]
    flavour = rnd.choice(common.FLAVOURS)
    how, what, cls = rnd.choice([k for k in failure_kinds(flavour) if k[2] == "exception"])
    p = failing_payload("f0", flavour, how, what, rnd.random() < 0.5)
    p["when"] = "queued"  # registered between the two runs
    second = {"accept_delay": 0.03, "payloads": [p], "services": [], "grace": 0.2, "reuse_runner": True, "mode": first["mode"],
              "script": [["wait_running", 8], ["expect_end", PATIENCE]]}
    if first["mode"] is None:
        del first["mode"], second["mode"]
    return {"watchdog": 30, "inject": common.inject_conf(rnd, 0.5), "generations": [first, second],
            "meta": {"kind": "rerun", "fail": [[flavour, how, what, cls, "queued", False]], "judge_gen": 1}}


def gen_known_case(rnd, spec):
    """The recorded finding C01/systemexit-beside-stubborn-asyncio-payload, exercised on every run."""
    flavour = rnd.choice(["threading", "asyncio"])
    # an ordinary failure starts the closing of the runners; the stubborn payload keeps that going for 0.4 s; the SystemExit falls into it
    gen = {"accept_delay": 0.03, "services": [], "grace": 0.2,
           "payloads": [{"id": "b0", "flavour": "asyncio", "when": "queued", "program": [["beat", 0.01, None]], "cleanup": {"kind": "absorb", "times": 3}},
                        {"id": "f0", "flavour": "asyncio", "when": "queued", "program": [["sleep", 0.04], ["return", "zero"]], "cleanup": {"kind": "none"}},
                        {"id": "f1", "flavour": flavour, "when": "queued", "program": [["sleep", 0.15], ["raise", "SystemExit"]], "cleanup": {"kind": "none"}}],
           "script": [["wait_running", 8], ["expect_end", PATIENCE]]}
    return {"watchdog": 25, "inject": None, "generations": [gen],
            "meta": {"kind": "known", "fail": [["asyncio", "return", "zero", "exception", "queued", True], [flavour, "raise", "SystemExit", "base", "queued", True]], "meta_runner": False}}


def gen_control_case(rnd, spec):
    gen = {"accept_delay": 0.03, "payloads": [], "services": [], "grace": 0.2}
    script = [["wait_running", 8]]
    for i in range(rnd.randint(1, 5)):
        flavour = rnd.choice(common.FLAVOURS)
        p = {"id": "n%d" % i, "flavour": flavour, "program": rnd.choice([[["sleep", 0.01]], [], [["beat", 0.005, 3]], [["return", "none"]]]),
             "when": rnd.choice(["queued", "running"]), "cleanup": {"kind": "none"}}
        gen["payloads"].append(p)
        if p["when"] == "running":
            script.append(["adopt", p["id"]])
    gen["services"].append({"id": "s0", "flavour": rnd.choice(common.FLAVOURS), "create": "before", "program": [["sleep", 0.02]]})
    script.append(["sleep", 0.4])
    gen["script"] = script
    return {"watchdog": 25, "inject": common.inject_conf(rnd, 0.5), "generations": [gen], "meta": {"kind": "control", "fail": []}}


def gen_pending_case(rnd, spec):
    """A failure while a shutdown request is pending: shutdown() has been called, but the accept loop (polling once per
    accept_delay) has not noticed yet - the runtime is still running as ever, so the failure counts."""
    flavour = rnd.choice(common.FLAVOURS)
    what = rnd.choice(["LookupError", "ValueError", "CustomWithArgs"])
    gen = {"accept_delay": 1.0, "services": [], "grace": 0.2,
           "payloads": [{"id": "heart", "flavour": "asyncio", "when": "queued", "program": [["beat", 0.05, None]], "cleanup": {"kind": "none"}},
                        {"id": "f0", "flavour": flavour, "program": [["raise", what]], "cleanup": {"kind": "none"}}],
           # the accept loop polls after 0, 0.1, 0.3, 0.6, 1.0, 1.5, 2.1, 2.8 ... s: at 2.3 s the next look at the flag is 0.5 s away
           "script": [["wait_running", 8], ["sleep", 2.3], ["thread", [["shutdown"]]], ["sleep", 0.05], ["adopt", "f0"],
                      ["expect_end", PATIENCE]]}
    return {"watchdog": 30, "inject": None, "generations": [gen],
            "meta": {"kind": "pending", "fail": [[flavour, "raise", what, "exception", "running", False]]}}


def gen_adopting_case(rnd, spec):
    """Coroutine payloads that adopt as the very first thing they do - while the runtime is still handing over what was
    queued before the start - and a thread payload, started before them, that fails a moment later."""
    flavour = ["trio", "asyncio", "foreign"][spec.get("case_index", 0) % 3]
    if flavour == "foreign":
        # nothing keeps the runtime's event loop busy; the failing asyncio payload is adopted by a thread payload from inside
        # an event loop of its own (a thread driving a coroutine library with asyncio.run)
        how, what = rnd.choice([("raise", "LookupError"), ("return", "zero")])
        gen = {"accept_delay": 0.05, "services": [], "grace": 0.2, "payloads": [
            {"id": "quiet", "flavour": "trio", "when": "queued", "program": [["block"]], "cleanup": {"kind": "none"}},
            {"id": "f0", "flavour": "asyncio", "program": [[how, what]], "cleanup": {"kind": "none"}},
            {"id": "owner", "flavour": "threading", "when": "queued", "program": [["sleep", 0.3], ["private_loop_adopt", ["f0"], 0.3]], "cleanup": {"kind": "none"}}],
            "script": [["wait_running", 8], ["sleep", 0.5], ["expect_end", PATIENCE]]}
        return {"watchdog": 25, "inject": None, "generations": [gen],
                "meta": {"kind": "adopting", "fail": [["asyncio", how, what, "exception", "from_foreign_loop", False]], "meta_runner": False}}
    gen = {"accept_delay": 0.03, "services": [], "grace": 0.2, "payloads": [
        {"id": "f0", "flavour": "threading", "when": "queued", "program": [["sleep", 0.3], ["raise", "LookupError"]], "cleanup": {"kind": "none"}}]}
    for i in range(rnd.randint(1, 3)):
        gen["payloads"].append({"id": "kid%d" % i, "flavour": rnd.choice(common.FLAVOURS), "program": [["sleep", 0.01]], "cleanup": {"kind": "none"}})
        gen["payloads"].append({"id": "early%d" % i, "flavour": flavour, "when": "queued", "program": [["adopt", "kid%d" % i], ["beat", 0.02, None]], "cleanup": {"kind": "none"}})
    gen["script"] = [["wait_running", 4], ["expect_end", PATIENCE]]
    return {"watchdog": 25, "inject": None, "generations": [gen],
            "meta": {"kind": "adopting", "fail": [["threading", "raise", "LookupError", "exception", "queued", True]], "meta_runner": False}}


def gen_slowclean_case(rnd, spec):
    """A failure beside a trio payload whose (bounded) cleanup takes 6 s: the run ends when that is done, and still raises
    RuntimeError caused by the failure."""
    flavour = ["threading", "asyncio"][spec.get("case_index", 0) % 2]
    how, what = rnd.choice([("raise", "LookupError"), ("raise", "CustomWithArgs"), ("return", "str")])
    gen = {"accept_delay": 0.03, "services": [], "grace": 0.2, "payloads": [
        {"id": "flusher", "flavour": "trio", "when": "queued", "program": [["block"]], "cleanup": {"kind": "shielded", "dur": 6.0}},
        {"id": "f0", "flavour": flavour, "when": "queued", "program": [["sleep", 0.2], [how, what]], "cleanup": {"kind": "none"}}],
        "script": [["wait_running", 8], ["expect_end", 14.0]]}
    return {"watchdog": 30, "inject": None, "generations": [gen],
            "meta": {"kind": "slowclean", "fail": [[flavour, how, what, "exception", "queued", True]], "meta_runner": False}}


def gen_dependent_case(rnd, spec):
    """A failure beside a trio payload whose cleanup drains what an asyncio payload delivers until *that* one is torn down:
    both are told to stop side by side, so the run ends."""
    # (the failing payload is not a trio payload: a trio run reports a failure when all its payloads have finished their
    # cleanup, so a trio cleanup cannot wait for what only happens after that report - a circular wait, not generated)
    flavour = ["threading", "asyncio"][spec.get("case_index", 0) % 2]
    how, what = rnd.choice([("raise", "LookupError"), ("raise", "CustomWithArgs"), ("return", "str")])
    gen = {"accept_delay": 0.03, "services": [], "grace": 0.2, "payloads": [
        {"id": "sink", "flavour": "trio", "when": "queued", "program": [["block"]], "cleanup": {"kind": "shielded", "dur": 0, "await_gate": "drained"}},
        {"id": "source", "flavour": "asyncio", "when": rnd.choice(["queued", "running"]), "program": [["beat", 0.02, None]], "cleanup": {"kind": "sync", "dur": 0, "open_gate": "drained"}},
        {"id": "f0", "flavour": flavour, "when": "queued", "program": [["sleep", 0.3], [how, what]], "cleanup": {"kind": "none"}}],
        "script": [["wait_running", 8], ["adopt", "source"], ["expect_end", PATIENCE + 2]]}
    if gen["payloads"][1]["when"] == "queued":
        gen["script"].pop(1)
    return {"watchdog": 30, "inject": None, "generations": [gen],
            "meta": {"kind": "dependent", "fail": [[flavour, how, what, "exception", "queued", True]], "meta_runner": False}}


def gen_mixed_case(rnd, spec):
    """Two payloads of one coroutine flavour fail in the very same scheduler tick (both wait on one event of their framework),
    one with an Exception or a return value, the other with a KeyboardInterrupt: a failure has happened, so the run raises."""
    flavour = ["trio", "asyncio", "trio"][spec.get("case_index", 0) % 3]
    how, what = rnd.choice([("raise", "LookupError"), ("raise", "CustomWithArgs"), ("return", "str"), ("return", "zero")])
    order = rnd.choice([["k0", "f0"], ["f0", "k0"]])
    payloads = {"k0": {"id": "k0", "flavour": flavour, "when": "queued", "program": [["tevent_wait", "go"], ["raise", "KeyboardInterrupt"]], "cleanup": {"kind": "none"}},
                "f0": {"id": "f0", "flavour": flavour, "when": "queued", "program": [["tevent_wait", "go"], [how, what]], "cleanup": {"kind": "none"}}}
    gen = {"accept_delay": 0.03, "services": [], "grace": 0.2,
           "payloads": [payloads[order[0]], payloads[order[1]],
                        {"id": "setter", "flavour": flavour, "when": "queued", "program": [["sleep", 0.1], ["tevent_set", "go"], ["beat", 0.02, None]], "cleanup": {"kind": "none"}}],
           "script": [["wait_running", 8], ["expect_end", PATIENCE]]}
    return {"watchdog": 25, "inject": None, "generations": [gen],
            "meta": {"kind": "mixed", "flavour": flavour, "fail": [[flavour, how, what, "exception", "queued", True]], "meta_runner": False}}


def judge_mixed(case, run, result):
    fails = [e for e in run.of("fail", gen=0) if e.get("pid") == "f0"]
    interrupts = [e for e in run.of("fail", gen=0) if e.get("pid") == "k0"]
    ended = run.first("accept-ended", gen=0)
    if not fails or not interrupts:
        result.count("mixed_scenarios_in_which_only_one_of_the_two_got_to_fail")
        return []
    flavour = case["meta"]["flavour"]
    result.count("failures_in_the_same_tick_as_a_keyboardinterrupt_%s" % flavour)
    f = case["meta"]["fail"][0]
    desc = "%s %s(%s) in the same scheduler tick as a %s payload's KeyboardInterrupt" % (f[0], f[1], f[2], flavour)
    if ended is None or run.of("accept-still-running", gen=0):
        return [("payload failed (%s) but accept kept running for %.0f s" % (desc, PATIENCE), None)]
    known = "C01/failure-in-the-same-tick-as-a-keyboardinterrupt"
    if ended["outcome"] == "returned":
        # asyncio: the KeyboardInterrupt aborts the event loop at once and the run ends as for a plain ^C
        return [("payload failed (%s): accept returned normally - the failure was dropped" % desc, known if flavour == "asyncio" else None)]
    if ended.get("exc") == "RuntimeError" and "f0" in (ended.get("matched") or []):
        return []
    # it raises, but not the RuntimeError caused by the failure: the group holding both is passed on as it is
    mech = known if flavour == "trio" and ended.get("exc") in ("BaseExceptionGroup", "ExceptionGroup") else None
    return [("payload failed (%s): accept raised %s(%s), expected RuntimeError caused by the failure" % (desc, ended.get("exc"), ended.get("msg")), mech)]


def judge(case, run, result):
    trouble = common.harness_trouble(run)
    if trouble:
        result.inconc(trouble)
        return []
    if case["meta"]["kind"] == "mixed":
        return judge_mixed(case, run, result)
    if case["meta"]["kind"] == "pending":
        fail = run.first("fail", gen=0)
        how = [e["how"] for e in run.of("acceptor", gen=0)]
        if fail is None or not fail.get("accepting") or "stopped" in how or "cancelled" not in how:
            # the accept loop noticed the request by itself ("stopped"): the failure raced with the shutdown proper
            result.count("pending_shutdown_scenarios_not_judged")
            return []
        result.count("failures_while_a_shutdown_request_was_pending")
    g = case["meta"].get("judge_gen", 0)
    fails = [e for e in run.of("fail", gen=g)]
    ended = run.first("accept-ended", gen=g)
    problems = []
    if case["meta"]["kind"] == "control":
        result.count("control_scenarios")
        if fails:
            result.inconc("control scenario logged a failure")
            return []
        if ended is None or ended["outcome"] != "returned":
            problems.append(("payloads that end with None stopped the runtime: accept %s" % (ended and (ended["outcome"], ended.get("exc"), ended.get("msg"))), None))
        if not run.of("return", op="shutdown", by="harness"):
            problems.append(("the runtime was not running any more when the harness shut it down", None))
        return problems
    if not fails:
        if common.watchdog_fired(run):
            result.inconc("watchdog fired before any payload failed: %s" % run.stacks[-1500:])
        else:
            result.count("scenarios_without_observed_failure")
        return []
    result.count("scenarios_with_failure")
    if case["meta"]["kind"] == "dependent" and run.of("cleanup-done", gen=g, pid="sink"):
        result.count("failures_beside_a_trio_cleanup_that_waits_for_an_asyncio_payload_to_be_torn_down")
    if case["meta"]["kind"] == "slowclean" and run.of("cleanup-done", gen=g, pid="flusher"):
        result.count("failures_beside_a_trio_cleanup_of_6_s")
    if "executor_jobs" in case["generations"][g].get("tags", []) and run.of("start", gen=g, pid="exjob0"):
        result.count("failures_beside_asyncio_payloads_waiting_for_executor_jobs")
    if "cross" in case["generations"][g].get("tags", []) and run.of("call", gen=g, op="execute"):
        result.count("failures_beside_trio_payloads_calling_into_asyncio")
    if case["meta"].get("meta_runner"):
        result.count("scenarios_driving_metarunner_directly")
    result.count("failures_observed", len(fails))
    first = min(e["seq"] for e in fails)
    specs = {"f%d" % i: f for i, f in enumerate(case["meta"]["fail"])}
    if case["meta"]["kind"] == "rerun":
        result.count("reruns_of_the_same_runner")
    if run.of("accept-still-running", gen=g) or ended is None:
        who = ["%s %s(%s) via %s" % (specs[e["pid"].replace("svc:", "")][0], e["how"], e["what"], specs[e["pid"].replace("svc:", "")][4]) for e in fails]
        mech = None
        payloads = case["generations"][g]["payloads"]
        loop_fatal = [e for e in fails if str(e.get("what", "")).startswith("SystemExit") and specs[e["pid"].replace("svc:", "")][0] != "trio"]
        stubborn = [p["id"] for p in payloads if p["flavour"] == "asyncio" and p["cleanup"].get("kind") == "absorb" and run.of("start", gen=g, pid=p["id"])]
        if loop_fatal and stubborn and "_cancel_all_tasks" in (run.stacks or ""):
            # SystemExit is re-raised out of the event loop, the runners are never closed, and asyncio.run's own finalisation
            # cancels every remaining task exactly once: a payload that only ends on its second cancellation waits forever
            mech = "C01/systemexit-beside-stubborn-asyncio-payload"
        problems.append(("payload failed (%s) but accept kept running for %.0f s%s" % ("; ".join(who), PATIENCE, (" beside asyncio payload(s) %s that end on their second cancellation" % stubborn) if mech else ""), mech))
        return problems
    if ended["seq"] < first:
        result.count("accept_ended_before_failure")
        return []
    before = [e for e in fails if e["seq"] < ended["seq"]]
    kinds = [specs[e["pid"].replace("svc:", "")][3] for e in before]
    desc = "; ".join("%s %s(%s) via %s" % (specs[e["pid"].replace("svc:", "")][0], e["how"], e["what"], specs[e["pid"].replace("svc:", "")][4]) for e in before)
    if ended["outcome"] != "raised":
        problems.append(("payload failed (%s) but accept returned normally" % desc, None))
        return problems
    if all(k == "exception" for k in kinds):
        result.count("strong_clause_checked")
        if ended["exc"] != "RuntimeError":
            problems.append(("payload failed (%s): accept raised %s(%s), expected RuntimeError" % (desc, ended["exc"], ended.get("msg")), None))
        elif not ended["matched"]:
            problems.append(("payload failed (%s): RuntimeError's cause chain %r contains neither the original exception nor an orphaned-return error with the value"
                             % (desc, ended["reach"]), None))
        else:
            for pid in ended["matched"]:
                result.count("matched_%s" % ("return" if specs[pid.replace("svc:", "")][1] == "return" else "exception"))
    else:
        result.count("base_clause_checked")
    for f in case["meta"]["fail"]:
        result.count("reg_%s" % f[4])
        result.count("flavour_%s" % f[0])
    return problems


def execute(case, result):
    run = common.run_and_observe(case, result)
    problems = judge(case, run, result)
    return [(what + " | witness: " + core.digest(run.witness()), mech) for what, mech in problems], run


def run_shard(spec):
    result = core.Result()
    only = spec.get("only_case")
    if spec["kind"] == "product":
        items = product()
        rnd0 = core.rng(PID, spec["seed"], "order")
        order = list(range(len(items)))
        rnd0.shuffle(order)
        mine = [i for n, i in enumerate(order) if n % spec["parts"] == spec["part"]][:: spec.get("stride", 1)]
        todo = [(i, rep) for i in mine for rep in range(spec.get("repeat", 1))]
        gen = lambda i, rep: gen_product_case(core.rng(PID, spec["seed"], "product", i, rep), items[i])  # noqa: E731
    else:
        todo = [(i, 0) for i in range(spec["n"])]
        g = {"random": gen_random_case, "control": gen_control_case, "rerun": gen_rerun_case, "pending": gen_pending_case, "known": gen_known_case, "mixed": gen_mixed_case, "adopting": gen_adopting_case, "slowclean": gen_slowclean_case, "dependent": gen_dependent_case}[spec["kind"]]
        gen = lambda i, rep: g(core.rng(PID, spec["seed"], spec["shard"], i), dict(spec, case_index=i))  # noqa: E731
    for i, rep in todo:
        cid = i * 10 + rep
        if only is not None and cid != only:
            continue
        case = gen(i, rep)
        problems, run = execute(case, result)
        result.case(common.sample(case, run, **{"meta": case["meta"], "bystanders": len(case["generations"][0]["payloads"])}),
                    nontrivial=bool(run.of("fail")) or case["meta"]["kind"] == "control", key=common.shape(case) + str(case["meta"]))
        for what, mech in problems:
            clean = {k: v for k, v in spec.items() if k != "only_case"}
            result.violation(what, {"scenario": case, "run": run.witness()}, mech, spec=clean, case_id=cid)
    return result


def finish(total, tier):
    need = ["scenarios_with_failure", "scenarios_driving_metarunner_directly", "reruns_of_the_same_runner", "strong_clause_checked", "base_clause_checked", "failures_beside_asyncio_payloads_waiting_for_executor_jobs", "failures_beside_a_trio_cleanup_of_6_s", "failures_beside_a_trio_cleanup_that_waits_for_an_asyncio_payload_to_be_torn_down", "matched_exception", "matched_return", "control_scenarios",
            "failures_while_a_shutdown_request_was_pending", "failures_beside_trio_payloads_calling_into_asyncio"]
    need += ["reg_" + r for r in REGISTRATIONS] + ["flavour_" + f for f in common.FLAVOURS]
    for name in need:
        if not total.counters.get(name) and not total.violations:
            total.inconc("monitor never observed: " + name)
    seen = total.counters.get("scenarios_with_failure", 0)
    missing = total.counters.get("scenarios_without_observed_failure", 0)
    if missing > max(3, seen // 10) and not total.violations:
        total.inconc("%d scenarios never reached the failure (%d did)" % (missing, seen))
