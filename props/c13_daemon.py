"""C13 - the daemon runs its configured pipeline until stopped; failures set the exit status.

Monitor (E4): `python -m cobald.daemon <generated config>` as a child process; the harness
plugin classes append to an event file (constructed - with a running asyncio loop or not -,
run started, heartbeat n, cancelled, failing); plus exit status and the runtime log on stderr.
"""
import re

from vlib import core, proc

PID = "C13"

META = {
    "level": "exploration",
    "engine": "E4 process-level engine",
    "rule": (
        "seeded random daemons: YAML configurations (pipelines of 1-6 elements mixing !Tag and __type__ forms, "
        "service elements of all three flavours (one of them an empty composite-like pool that evaluates to False) next to plain and shipped elements, optional logging section and "
        "extra section, .yaml / .yml) and Python configurations (pipelines built with >>, objects bound to "
        "names); SIGINT 0.2-1.0 s after every service has beaten >= 4 times (after a forced gc.collect inside "
        "the services); three daemons per run get a configuration with 60-200 services and run under line-level delay injection "
        "(installed through a sitecustomize module of the harness); kind=invalid: unknown section, missing pipeline, constructor error, YAML syntax error, "
        "unknown tag, Python config raising, an element that is not the last one whose constructor raises TypeError / KeyError / ValueError when the pipeline is linked, a pipeline section that is not a list, unknown / missing extension (also a byte-compiled configuration as .pyc), missing file; kind=failing: a service "
        "raising or returning a value after k beats. Non-trivial = every daemon run; distinct by configuration."
    ),
    "assumptions": [
        "'runs until stopped' is restated as: all services still beat when the signal is sent, 0.2-1.0 s after each has beaten 4 times",
        "'never stays up idle' is restated as: the process ends within 20 s (normal < 1.5 s)",
        "an error on the runtime log = a record of a cobald.runtime logger reporting an aborted / terminated runner (not merely the interpreter's traceback)",
    ],
    "shard_timeout": {"quick": 900, "thorough": 3600},
    "max_jobs": 16,
}
LOG_LINE = re.compile(r"^\d{4}-\d{2}-\d{2} [\d:]+\s+\(\d+\) .*(runner aborted|runner terminated|aborted)", re.M)
SERVICE_TAGS = {"VSvcNew": "asyncio", "VSvcStubborn": "asyncio", "VSvcAgain": "asyncio", "VSvcTrioDeco": "trio", "VSvcCtrl": "trio", "VSvcDeco": "asyncio", "VSvcThread": "threading", "VSvcPool": "trio", "VSvcEmpty": "trio", "VSvcWaiter": "asyncio"}


def plan(tier, seed):
    if tier == "thorough":
        return [dict(seed=seed, shard=i, n=40) for i in range(16)]
    return [dict(seed=seed, shard=i, n=6) for i in range(16)]


def gen_pipeline(rnd):
    """[(class, label or None, kwargs)] head..tail"""
    n = rnd.choice([1, 2, 2, 3, 3, 4, 5, 6])
    elems = []
    for i in range(n):
        tail = i == n - 1
        if tail:
            cls = rnd.choice(["VSvcPool", "VSvcPool", "VPool", "VSvcEmpty"])
        elif i == 0:
            cls = rnd.choice(["VSvcCtrl", "VSvcCtrl", "VSvcDeco", "VSvcThread", "VDeco", "LinearController"])
        else:
            cls = rnd.choice(["VSvcDeco", "VSvcThread", "VDeco", "Standardiser", "Logger", "VSvcDeco", "VSvcWaiter", "VSvcTrioDeco", "VSvcAgain", "VSvcStubborn", "VSvcNew"])
        kwargs = {}
        label = None
        if cls in SERVICE_TAGS:
            label = "svc%d" % i
            kwargs["label"] = label
            kwargs["period"] = rnd.choice([0.02, 0.05])
        elif cls == "Standardiser" and rnd.random() < 0.5:
            kwargs["minimum"] = 1
        elif cls == "LinearController" and rnd.random() < 0.5:
            kwargs["interval"] = rnd.choice([1, 5])
        elems.append([cls, label, kwargs])
    if not any(e[1] for e in elems):
        elems[-1] = ["VSvcPool", "svc%d" % (n - 1), {"label": "svc%d" % (n - 1), "period": 0.05}]
    return elems


def yaml_text(rnd, elems, logging, extra):
    lines = []
    if logging:
        lines.append("logging: {version: 1}")
    lines.append("pipeline:")
    for cls, label, kwargs in elems:
        items = ", ".join("%s: %s" % (k, v) for k, v in kwargs.items())
        if cls in ("VSvcCtrl", "VSvcDeco", "VSvcAgain", "VSvcStubborn", "VSvcNew", "VSvcTrioDeco", "VSvcThread", "VSvcPool", "VSvcEmpty", "VSvcWaiter", "VDeco", "VPool") and rnd.random() < 0.35:
            # the class named directly, through a namespace class, or by an alternative constructor
            name = rnd.choice(["vplug.%s", "vplug.%s", "vplug.Site.%s", "vplug.%s.build"]) % cls
            lines.append("  - {__type__: %s%s}" % (name, (", " + items) if items else ""))
        elif items:
            lines.append("  - !%s {%s}" % (cls, items))
        else:
            lines.append("  - !%s" % cls)
    if extra:
        lines.append("vextra: {note: 1}")
    return "\n".join(lines) + "\n"


def python_text(rnd, elems, scouts=0):
    imports = ["from vplug import VSvcCtrl, VSvcDeco, VSvcAgain, VSvcStubborn, VSvcNew, VSvcTrioDeco, VSvcThread, VSvcPool, VSvcEmpty, VSvcWaiter, VDeco, VPool",
               "from cobald.controller.linear import LinearController", "from cobald.decorator.standardiser import Standardiser",
               "from cobald.decorator.logger import Logger"]
    parts = []
    for cls, label, kwargs in elems[:-1]:
        parts.append("%s.s(%s)" % (cls, ", ".join("%s=%r" % kv for kv in kwargs.items())))
    cls, label, kwargs = elems[-1]
    tail = "%s(%s)" % (cls, ", ".join("%s=%r" % kv for kv in kwargs.items()))
    if rnd.random() < 0.5:
        body = ["pool = " + tail, "pipeline = " + " >> ".join(parts + ["pool"])]
    else:
        body = ["pipeline = " + " >> ".join(parts + [tail])]
    if rnd.random() < 0.3:
        # a configuration that defines a settings class of its own (its creation looks the defining module up)
        imports = ["from __future__ import annotations", "from dataclasses import dataclass, field"] + imports
        body = ["", "", "@dataclass", "class Site:", "    name: str = 'verif'", "    tags: list[str] = field(default_factory=list)", "", "",
                "SITE = Site(tags=['a'])"] + body
    if rnd.random() < 0.3:
        # a configuration that knows where it lives (to read a settings file next to itself)
        imports = imports + ["import os", "HERE = os.path.dirname(os.path.abspath(__file__))", "assert os.path.isdir(HERE) and os.path.samefile(__spec__.origin, __file__)"]
    if scouts:
        # temporary helper services: defined, waited for, dropped again - then just as many real services are defined
        imports = imports + ["from vplug import VSvcScout", "import gc"]
        body = ["_scouts = [VSvcScout(label='scout%d' % i) for i in range(" + str(scouts) + ")]", "for _s in _scouts:", "    _s.done.wait(5)",
                "import time", "time.sleep(0.3)", "del _s, _scouts", "gc.collect()"] + body
    return "\n".join(imports + body) + "\n"


def gen_many(rnd, trio_heavy=None, inject=True):
    """A valid configuration with many cheap services, run under line-level delay injection: construction in the
    asyncio thread races with the accept loop's polling in the trio thread."""
    n = rnd.choice([60, 120, 200]) if inject else 200
    if trio_heavy if trio_heavy is not None else rnd.random() < 0.5:
        # mostly trio services: they all reach the trio runner within one sweep of the accept loop
        elems = [["VSvcTrioDeco" if i % 5 else "VSvcDeco", "svc%d" % i, {"label": "svc%d" % i, "period": 0.2}] for i in range(n - 1)]
    else:
        elems = [["VSvcDeco" if i % 3 else "VSvcThread", "svc%d" % i, {"label": "svc%d" % i, "period": 0.2}] for i in range(n - 1)]
    elems.append(["VSvcPool", "svc%d" % (n - 1), {"label": "svc%d" % (n - 1), "period": 0.2}])
    fmt = rnd.choice(["yaml", "python"])
    text = yaml_text(rnd, elems, False, False) if fmt == "yaml" else python_text(rnd, elems)
    return {"kind": "valid", "format": fmt, "elems": elems, "suffix": ".yaml" if fmt == "yaml" else ".py", "logging": False, "extra": False,
            "signal_after": 0.3, "defect": None, "missing_file": False, "slow_init": False, "text": text, "many": True,
            # without injection the whole configuration is constructed between two sweeps of the accept loop
            "inject": {"seed": rnd.randint(0, 10**6), "p_yield": 0.5, "p_sleep": 0.02, "max_sleep": 0.002} if inject else None}


def gen_case(rnd, spec):
    if spec["case_index"] == 1 and spec["shard"] in (2, 3, 4):
        return gen_many(rnd, trio_heavy=True if spec["shard"] == 2 else None, inject=spec["shard"] != 2)
    kind = ["valid", "failing", "invalid", "valid"][(spec["case_index"] + spec["shard"]) % 4] if rnd.random() < 0.8 else rnd.choice(["valid", "invalid", "failing"])
    elems = gen_pipeline(rnd)
    fmt = rnd.choice(["yaml", "yaml", "python"])
    # two corners that every run visits: a thread service ending with a BaseException, a byte-compiled configuration
    forced = None
    if spec["case_index"] == 2 and spec["shard"] in (5, 6, 7, 8):
        forced = "thread_base_failure" if spec["shard"] in (5, 6) else "compiled_config"
        kind = "failing" if forced == "thread_base_failure" else "invalid"
        if forced == "compiled_config":
            fmt = "python"
        else:
            if len(elems) == 1:
                elems.insert(0, None)
            elems[0] = ["VSvcThread", "svcT", {"label": "svcT", "period": 0.05}]
    if spec["case_index"] == 2 and spec["shard"] in (9, 10):
        forced = "broken_element" if spec["shard"] == 9 else "pipeline_not_a_list"
        kind, fmt = "invalid", "yaml"
        if forced == "broken_element":
            elems.insert(0, ["VSvcDeco", "svcB", {"label": "svcB", "period": 0.05}])
    if spec["case_index"] == 2 and spec["shard"] in (11, 12):
        forced, kind = "stubborn", "valid"
        elems.insert(0, ["VSvcStubborn", "svcS", {"label": "svcS", "period": rnd.choice([0.02, 0.05])}])
    if spec["case_index"] == 3 and spec["shard"] in (13, 14):
        # a service of each coroutine flavour that ends by returning a value that is not None but false
        forced, kind = "falsy_return", "failing"
        tag = "VSvcTrioDeco" if spec["shard"] == 13 else "VSvcDeco"
        elems.insert(0, [tag, "svcF", {"label": "svcF", "period": 0.05}])
    if spec["case_index"] == 3 and spec["shard"] == 15:
        forced, kind, fmt = "bad_logging", "invalid", "yaml"
    if spec["case_index"] == 4 and spec["shard"] == 2:
        forced, kind, fmt = "second_document", "invalid", "yaml"
    if spec["case_index"] == 4 and spec["shard"] in (0, 1):
        kind, fmt = "valid", "yaml"  # the large file, see below
    if spec["case_index"] == 5 and spec["shard"] in (0, 1, 2):
        kind, fmt = "valid", "python"  # temporary helper services, see below
    slow_asyncio = spec["case_index"] == 0 and spec["shard"] in (2, 3)
    if slow_asyncio:
        # an asyncio service whose constructor takes half a second: its run() is only started once the configuration is built,
        # so this is a valid configuration that works (unlike the trio / thread case below) - whatever the runtime logs meanwhile
        kind = "valid"
        elems.insert(0, ["VSvcDeco", "svcR", {"label": "svcR", "period": 0.05, "slow_init": 0.5}])
    slow = spec["case_index"] == 0 and spec["shard"] in (0, 1)  # the recorded finding, exercised on every run
    if slow:
        kind = "valid"
        victim = [e for e in elems if e[1]][0]
        victim[2]["slow_init"] = 0.5
    case = {"kind": kind, "format": fmt, "elems": elems, "suffix": rnd.choice([".yaml", ".yml"]) if fmt == "yaml" else ".py",
            "logging": fmt == "yaml" and rnd.random() < 0.35, "extra": fmt == "yaml" and rnd.random() < 0.25,
            "signal_after": rnd.choice([0.2, 0.4, 0.7, 1.0]), "defect": None, "missing_file": False, "slow_init": slow, "slow_asyncio": slow_asyncio}
    if kind == "failing":
        victims = [e for e in elems if e[1] and e[0] != "VSvcWaiter"]  # the waiter never fails by itself
        if not victims:
            elems[-1] = ["VSvcPool", "svc%d" % (len(elems) - 1), {"label": "svc%d" % (len(elems) - 1), "period": 0.05}]
            victims = [elems[-1]]
        v = rnd.choice(victims)
        v[2]["fail_after"] = rnd.choice([0, 1, 3, 6])
        v[2]["fail_how"] = rnd.choice(["raise", "return", "raise", "return", "systemexit", "base", "return_false", "return_zero", "return_empty", "return_emptystr"])
        if forced == "falsy_return":
            if v is not elems[0]:
                v[2].pop("fail_after"), v[2].pop("fail_how")
                v = elems[0]
                v[2]["fail_after"] = rnd.choice([0, 1, 3])
            v[2]["fail_how"] = rnd.choice(["return_false", "return_zero", "return_empty", "return_emptystr"])
        if forced == "thread_base_failure":
            if v is not elems[0]:
                v[2].pop("fail_after"), v[2].pop("fail_how")
                v = elems[0]
                v[2]["fail_after"] = rnd.choice([0, 1, 3, 6])
            v[2]["fail_how"] = rnd.choice(["systemexit", "base"])
        case["defect"] = "service %s %ss after %d beats" % (v[1], v[2]["fail_how"], v[2]["fail_after"])
    scouts = 0
    if fmt == "python" and kind == "valid" and (rnd.random() < 0.3 or (spec["case_index"] == 5 and spec["shard"] in (0, 1, 2))):
        scouts = sum(1 for e in elems if e[1])  # as many as the configuration has real services
        case["scouts"] = scouts
    text = yaml_text(rnd, elems, case["logging"], case["extra"]) if fmt == "yaml" else python_text(rnd, elems, scouts)
    if kind == "invalid":
        defect = rnd.choice(["unknown_section", "missing_pipeline", "ctor_error", "syntax", "unknown_tag", "py_raises", "bad_extension", "no_extension", "missing_file",
                             "python_tag", "bad_logging", "second_document"])
        if fmt == "python" and defect in ("unknown_section", "missing_pipeline", "syntax", "unknown_tag", "python_tag", "bad_logging", "second_document"):
            defect = rnd.choice(["py_raises", "ctor_error", "bad_extension"])
        if fmt == "yaml" and defect == "py_raises":
            defect = "unknown_tag"
        if forced == "compiled_config":
            defect = "bad_extension"
        if forced in ("broken_element", "pipeline_not_a_list", "bad_logging", "second_document"):
            defect = forced
        elif rnd.random() < 0.12 and fmt == "yaml":
            defect = rnd.choice(["broken_element", "pipeline_not_a_list"])
        if defect == "broken_element":
            # an element that is not the last one, written as a !Tag, whose constructor rejects its (well-formed) settings
            # with a plain TypeError / KeyError / ValueError when the pipeline is linked
            victims = [e for e in elems[:-1] if e[0] in SERVICE_TAGS and e[0] != "VSvcWaiter"]
            if victims:
                v = rnd.choice(victims)
                v[2]["broken"] = rnd.choice(["TypeError", "KeyError", "TypeError", "ValueError"])
                text = "\n".join("  - !%s {%s}" % (c, ", ".join("%s: %s" % kv for kv in kw.items())) if kw else "  - !%s" % c for c, _, kw in elems)
                text = ("logging: {version: 1}\n" if case["logging"] else "") + "pipeline:\n" + text + "\n"
            else:
                defect = "pipeline_not_a_list"
        if defect == "pipeline_not_a_list":
            text = ("logging: {version: 1}\n" if case["logging"] else "") + "pipeline: %s\n" % rnd.choice(["~", "5", "", "true", "2.5"])
        if defect == "unknown_section":
            text += "pipelin: []\n"
        elif defect == "missing_pipeline":
            text = ("logging: {version: 1}\n" if case["logging"] else "") + "vextra: {a: 1}\n"
        elif defect == "ctor_error":
            text = text.replace("label: svc", "nosuchargument: 1, label: svc", 1) if fmt == "yaml" else text.replace("label='svc", "nosuchargument=1, label='svc", 1)
            if "nosuchargument" not in text:
                defect = "bad_extension"
        elif defect == "syntax":
            text = text.replace("pipeline:", "pipeline: [", 1)
        elif defect == "unknown_tag":
            text = text.replace("pipeline:\n", "pipeline:\n  - !NoSuchPlugin {a: 1}\n", 1)
        elif defect == "python_tag":
            text = text.replace("pipeline:\n", "pipeline:\n  - !!python/object/apply:os.getcwd []\n", 1)
        elif defect == "second_document":
            # a complete, valid configuration followed by a document separator and something else: one file is one configuration
            text += rnd.choice(["---\npipeline:\n  - !VPool\n", "---\nlogging: {version: 1}\n", "---\n[this, is, {not: a configuration}]\n", "--- just text\n", "...\n---\nvextra: {a: 1}\n"])
        elif defect == "bad_logging":
            # a logging section that is there but is no logging configuration: empty, null, a list, without a version
            bad = rnd.choice(["logging:\n", "logging: {}\n", "logging: []\n", "logging: ~\n", "logging: {handlers: {}}\n", "logging: 0\n", "logging: ''\n"])
            text = bad + "".join(line + "\n" for line in text.splitlines() if not line.startswith("logging:"))
        elif defect == "py_raises":
            text += "raise RuntimeError('configuration module failed on purpose')\n"
        if defect == "bad_extension":
            case["suffix"] = ".pyc" if forced else rnd.choice([".json", ".txt", ".yamll", ".pyx", ".pyc", ".pyc", ".pyw"])
            # an extension the daemon does not know with content Python's import machinery could execute
            case["compiled"] = fmt == "python" and case["suffix"] == ".pyc"
        elif defect == "no_extension":
            case["suffix"] = ""
        elif defect == "missing_file":
            case["missing_file"] = True
        case["defect"] = defect
    if fmt == "yaml" and case["kind"] == "valid" and not slow and not slow_asyncio and forced is None and rnd.random() < 0.2:
        # a stage written once and used twice: an anchored __type__ element and an alias of it - two objects, two services
        stages = [e for e in elems[:-1] if e[0] in ("VSvcDeco", "VSvcTrioDeco", "VSvcThread")]
        lines = text.splitlines()
        if stages:
            e = rnd.choice(stages)
            hits = [i for i, line in enumerate(lines) if line.startswith("  - ") and ("label: %s," % e[1] in line or "label: %s}" % e[1] in line)]
            if len(hits) == 1:
                items = ", ".join("%s: %s" % kv for kv in e[2].items())
                lines[hits[0]] = "  - &again {__type__: vplug.%s, %s}" % (e[0], items)
                lines.insert(hits[0] + 1, "  - *again")
                text = "\n".join(lines) + "\n"
                case["twice"] = e[1]
    if fmt == "yaml" and case["kind"] == "valid" and (rnd.random() < 0.15 or (spec["case_index"] == 4 and spec["shard"] in (0, 1))):
        # a file of a realistic size: commented, longer than any read buffer
        pad = "".join("# %s setting %d: %s\n" % (rnd.choice(["site", "pool", "legacy"]), i, "x" * rnd.randint(20, 70)) for i in range(rnd.choice([120, 400])))
        text = {"top": pad + text, "bottom": text + pad, "both": pad + text + pad}[rnd.choice(["top", "bottom", "both"])]
        case["large"] = True
    case["text"] = text
    return case


def execute(case, result):
    labels = [e[1] for e in case["elems"] if e[1]]
    flavour = {e[1]: SERVICE_TAGS[e[0]] for e in case["elems"] if e[1]}

    def ready(events):
        beats = {}
        for e in events:
            if e["kind"] == "beat":
                beats[e["label"]] = max(beats.get(e["label"], -1), e["n"])
        return all(beats.get(lb, -1) >= (1 if case.get("many") else 4) for lb in labels)

    valid = case["kind"] == "valid"
    # a Python configuration may be called like a module it imports (cobald.py, vplug.py): it is not that module
    config_name = None
    if case["format"] == "python" and case["suffix"] == ".py" and not case.get("compiled"):
        config_name = ["config", "cobald", "vplug", "config", "trio", "pipeline.v2"][len(case["text"]) % 6]
        if config_name in ("cobald", "vplug", "trio"):
            result.count("python_configs_named_like_a_module_they_import")
    elif case["format"] == "yaml" and not case["missing_file"]:
        # what a site calls its file: the extension is what follows the last dot
        config_name = ["config", "cobald.site-a", "config", ".hidden", "pipeline.v2", "config", "my config.2024-01"][len(case["text"]) % 7]
    if config_name and "." in config_name:
        result.count("configs_with_more_than_one_dot_in_the_file_name")
    run = proc.run_daemon(None if case["missing_file"] else case["text"], case["suffix"], ready, config_name=config_name,
                          signal_after=case["signal_after"] if valid else None, timeout=25.0, inject=case.get("inject"), compiled=case.get("compiled", False),
                          wait_ready=20.0 if case.get("many") else 8.0)
    problems = []
    what = "%s config%s" % (case["format"], (" with defect: %s" % case["defect"]) if case["defect"] else "")

    def bad(msg):
        mech = None
        widened = (case.get("slow_init") and run.of("ctor-begin")) or case.get("many")  # slow constructor, or injected delays
        if widened and "AttributeError" in run.stderr and "object has no attribute" in run.stderr:
            # run() was started while the (slow) constructor of the service was still executing
            mech = "C13/service-started-before-init-completes"
        problems.append(("%s: %s\n--- config ---\n%s--- stderr (tail) ---\n%s" % (what, msg, case["text"], run.stderr[-1500:]), mech))

    result.count("daemons_%s" % case["kind"])
    if "@dataclass" in (case.get("text") or ""):
        result.count("python_configs_defining_a_dataclass")
    result.count("configs_%s" % case["format"])
    if valid:
        if run.timed_out:
            bad("daemon did not exit within 25 s of SIGINT")
            return problems
        if not getattr(run, "ready", False):
            started = {lb: len(run.of("run", lb)) for lb in labels}
            ctor = {lb: len(run.of("ctor", lb)) for lb in labels}
            bad("services never all came up (daemon idle or dead): constructed %s, run started %s, exit status %s" % (ctor, started, run.exit_code))
            return problems
        for lb in labels:
            ctors = run.of("ctor", lb)
            if lb == case.get("twice"):
                # configured once, used twice: two objects, each a service of its own (their beats interleave under one label)
                result.count("yaml_stages_written_once_and_used_twice")
                if len(ctors) != 2 or len(run.of("run", lb)) != 2:
                    bad("stage %s is used twice (anchor and alias): constructed %d times, run started %d times" % (lb, len(ctors), len(run.of("run", lb))))
                first_beats = [e for e in run.of("beat", lb) if e["n"] == 0]
                if case["signal_after"] >= 0.4 and len(first_beats) != 2:
                    # (the daemon counts as ready when the first of the two has beaten 5 times; the stop comes >= 0.4 s later)
                    bad("stage %s is used twice but %d of the two services ever did anything" % (lb, len(first_beats)))
                continue
            if len(ctors) != 1:
                bad("service %s constructed %d times" % (lb, len(ctors)))
            elif not ctors[0]["loop_running"]:
                bad("service %s was constructed outside the running asyncio event loop" % lb)
            if len(run.of("run", lb)) != 1:
                bad("service %s: run started %d times" % (lb, len(run.of("run", lb))))
            beats = [e["n"] for e in run.of("beat", lb)]
            if beats != list(range(len(beats))):
                bad("service %s: heartbeats are not one continuous run: %s" % (lb, beats[:20]))
            at_signal = [e for e in run.events[: run.events_at_signal] if e["kind"] == "beat" and e["label"] == lb]
            recent = [e for e in at_signal if e["n"] >= 4]
            late = [e for e in run.events if e["kind"] == "beat" and e["label"] == lb and e["n"] > 4]
            waiter = any(e[0] == "VSvcWaiter" and e[1] == lb for e in case["elems"])
            if case.get("many"):
                result.count("services_in_large_injected_configs")
                if lb == labels[0] and sum(1 for e in case["elems"] if e[0] == "VSvcTrioDeco") > len(case["elems"]) / 2:
                    result.count("large_configs_of_mostly_trio_services")
            elif waiter:
                ended_early = [e for e in run.events[: run.events_at_signal] if e["kind"] == "waiter-ended" and e["label"] == lb]
                if ended_early:
                    bad("service %s (waiting on a private future) ended before the daemon was stopped" % lb)
                result.count("private_waiter_services_checked")
            elif not recent or not late:
                bad("service %s was not running any more when the daemon was stopped (beats %d)" % (lb, len(beats)))
            if flavour[lb] != "threading" and not run.of("cancelled", lb):
                bad("service %s (%s) was not cancelled on SIGINT" % (lb, flavour[lb]))
            result.count("services_checked_%s" % flavour[lb])
            if any(e[0] == "VSvcStubborn" and e[1] == lb for e in case["elems"]):
                result.count("services_that_absorb_one_cancellation_checked")
            if any(e[0] == "VSvcNew" and e[1] == lb for e in case["elems"]):
                result.count("services_with_a_new_method_of_their_own_checked")
            if any(e[0] == "VSvcAgain" and e[1] == lb for e in case["elems"]):
                result.count("services_of_a_class_decorated_twice_checked")
            if any(e[0] == "VSvcEmpty" and e[1] == lb for e in case["elems"]):
                result.count("falsy_services_checked")
        if run.exit_code != 0:
            bad("exit status %s after SIGINT, expected 0" % run.exit_code)
        if "Traceback" in run.stderr:
            bad("traceback on the log after a graceful stop")
        if case["logging"]:
            result.count("valid_with_logging_section")
        if case.get("scouts") and len(run.of("scout")) >= case["scouts"]:
            result.count("valid_python_configs_using_temporary_helper_services")
        if case.get("slow_asyncio") and run.of("ctor-begin"):
            result.count("valid_configs_with_a_slowly_constructed_asyncio_service")
        if case.get("large"):
            result.count("valid_yaml_files_larger_than_8_kB")
    else:
        if run.timed_out:
            bad("the daemon stayed up (idle) for 25 s instead of exiting")
            return problems
        if run.exit_code == 0:
            bad("exit status 0")
        if not LOG_LINE.search(run.stderr):
            bad("no error record of the runtime on the log")
        if case["kind"] == "failing":
            failing = run.of("failing")
            if not failing:
                bad("the service never reached its failure (exit status %s)" % run.exit_code)
            result.count("failing_services_%s" % ("after_start" if failing else "unreached"))
            if failing and str(failing[0].get("how")).startswith("return_"):
                result.count("failing_services_returning_a_false_value_%s" % flavour.get(failing[0]["label"], "?"))
            if failing and failing[0].get("how") in ("systemexit", "base"):
                result.count("failing_services_with_base_exception_%s" % flavour.get(failing[0]["label"], "?"))
        else:
            result.count("defect_" + case["defect"])
            if case.get("compiled"):
                result.count("defect_unknown_extension_with_byte_compiled_config")
        if case["logging"]:
            result.count("failures_with_logging_section")
    return problems[:3]


def run_shard(spec):
    result = core.Result()
    core.drive(PID, spec, gen_case, execute, result, key=lambda c: (c["text"], c["suffix"], c["kind"], c["missing_file"]))
    return result


def finish(total, tier):
    need = ["daemons_valid", "daemons_invalid", "daemons_failing", "configs_yaml", "configs_python", "services_checked_trio",
            "services_checked_asyncio", "services_checked_threading", "failing_services_after_start", "valid_with_logging_section", "falsy_services_checked", "private_waiter_services_checked", "services_in_large_injected_configs",
            "failing_services_with_base_exception_threading", "defect_unknown_extension_with_byte_compiled_config",
            "defect_broken_element", "defect_pipeline_not_a_list", "defect_bad_logging", "defect_second_document", "valid_python_configs_using_temporary_helper_services", "valid_configs_with_a_slowly_constructed_asyncio_service", "valid_yaml_files_larger_than_8_kB", "failing_services_returning_a_false_value_trio", "failing_services_returning_a_false_value_asyncio", "python_configs_named_like_a_module_they_import", "configs_with_more_than_one_dot_in_the_file_name", "python_configs_defining_a_dataclass", "services_of_a_class_decorated_twice_checked", "services_that_absorb_one_cancellation_checked", "large_configs_of_mostly_trio_services"]
    for name in need:
        if not total.counters.get(name) and not total.violations:
            total.inconc("monitor never observed: " + name)
