"""C15 - FactoryPool spawns and releases just enough children.

Monitor (E2): the real FactoryPool.run() under the virtual clock; before and after every
adjustment the hatchery / mortuary membership, every child's demand and supply, the factory
call count and the aggregated properties are snapshotted and judged by relational
invariants (ties in the release order are broken by set order, so no exact model is used).
"""
import itertools

from vlib import core, probe, vt
from vlib.doubles import RecPool

PID = "C15"

META = {
    "level": "exploration",
    "engine": "E2 virtual time + invariants at a hook (state snapshots around each adjustment)",
    "rule": (
        "kind=exhaustive: ALL histories of length 1-3 over a 12-letter alphabet (demand writes 0/1/2/3/5/8, a child "
        "zeroing its own demand, children's supply catching up with / exceeding / dropping below their demand, "
        "utilisation changes) x 4 initial child sets (one with a child that has no demand left) x 2 factories, one adjustment cycle after every letter; "
        "kind=random: seeded histories of 1-12 cycles with 0-3 actions each (dyadic demands, children of 1-3 sizes, "
        "0-4 initial children, in 30 % of the cases next to a second, unrelated FactoryPool that releases its children). kind=weak: children that nobody but the pool references (the harness keeps weak references and the last demand written to each), with and without a garbage collection per cycle. Non-trivial = at least one adjustment that spawned or released a child."
    ),
    "assumptions": [
        "until a demand is written, the requested demand of a pool built from children is the sum of those children's demands (what FactoryPool.__init__ computes; the property speaks of 'the requested demand' without saying what it is before the first write)",
        "factory children start with positive demand and store the demand they are given (documented contract)",
        "demands are integers or dyadic fractions, so sums are exact",
        "hatchery/mortuary membership is read from the pool's two child sets (anchored state)",
    ],
    "shard_timeout": {"quick": 300, "thorough": 1800},
}
ALPHABET = [["D", 0], ["D", 1], ["D", 2], ["D", 3], ["D", 5], ["D", 8], ["zero", 0], ["zero", 1],
            ["supply", "match"], ["supply", "double"], ["supply", "none"], ["util", 0]]


def plan(tier, seed):
    big = tier == "thorough"
    specs = core.shards(seed, 60000 if big else 2500, 12 if big else 6, kind="random")
    for s in specs:
        s["shard"] = "random-%s" % s["shard"]
    specs.append(dict(seed=seed, shard="weak", kind="weak", n=3000 if big else 300))
    parts = 8
    for part in range(parts):
        specs.append(dict(seed=seed, shard="exhaustive-%d" % part, kind="exhaustive", depth=3, n=1, part=part, parts=parts))
        if big:  # depth 4: every 5th word
            specs.append(dict(seed=seed, shard="exhaustive4-%d" % part, kind="exhaustive", depth=4, n=1, thin=5, part=part, parts=parts, only_depth=4))
    return specs


def gen_case(rnd, spec):
    cycles = []
    for _ in range(rnd.randint(1, 12)):
        acts = []
        for _ in range(rnd.choice([0, 1, 1, 1, 2, 3])):
            k = rnd.random()
            if k < 0.5:
                acts.append(["D", rnd.choice([0, 1, 2, 3, 5, 8, 13, 2.5, 0.5, 7.75, rnd.randint(0, 30)])])
            elif k < 0.65:
                acts.append(["zero", rnd.randint(0, 9)])
            elif k < 0.85:
                acts.append(["supply", rnd.choice(["match", "double", "none", "half"])])
            elif k < 0.93:
                acts.append(["supply1", rnd.randint(0, 9), rnd.choice([0, 1, 2, 4, 0.5])])
            else:
                # idle children (utilisation and allocation 0) are children like any other
                acts.append(["util", rnd.randint(0, 9)] + rnd.choice([[], [0.0, 0.0], [0.0, 0.5], [1.0, 1.0]]))
        cycles.append(acts)
    # initial children may already be draining (demand 0, still holding supply)
    return {"initial": [[rnd.choice([1, 2, 3, 0.5, 0, 0]), rnd.choice([0, 1, 2, 3])] for _ in range(rnd.choice([0, 0, 1, 2, 3, 4]))],
            "sizes": rnd.choice([[1], [2], [1, 3], [1, 2, 5], [0.5, 4], [3]]), "cycles": cycles, "neighbour": rnd.random() < 0.3}


def execute(case, result):
    from cobald.composite.factory import FactoryPool

    made = []
    sizes = case["sizes"]

    def factory():
        child = RecPool(demand=sizes[len(made) % len(sizes)], supply=0, utilisation=1.0, allocation=1.0)
        made.append(child)
        return child

    initial = [RecPool(demand=d, supply=s, utilisation=1.0, allocation=1.0) for d, s in case["initial"]]
    pool = FactoryPool(*initial, factory=factory, interval=1)
    # an unrelated second FactoryPool in the same process that releases its children: nothing of it may show up in `pool`
    neighbours = [RecPool(demand=2, supply=3, utilisation=0.5, allocation=0.5) for _ in range(2)] if case.get("neighbour") else []
    other = FactoryPool(*neighbours, factory=lambda: RecPool(demand=1, supply=0), interval=1) if neighbours else None
    if other is not None:
        other.demand = 0
        result.count("cases_with_a_second_factory_pool")
    everyone = list(initial)  # strong references: the mortuary only holds weak ones
    built_with = sum(d for d, _ in case["initial"])
    if initial and any(d != s for d, s in case["initial"]):
        result.count("pools_built_from_children_whose_supply_differs_from_their_demand")
    if pool.demand != built_with:
        return [("a pool built from children demanding %r reports %r as the requested demand before anything was written (their supplies: %r)"
                 % ([d for d, _ in case["initial"]], pool.demand, [s for _, s in case["initial"]]), None)]
    if not hasattr(pool, "_hatchery") or not hasattr(pool, "_mortuary"):
        result.inconc("FactoryPool no longer exposes _hatchery/_mortuary; the monitor cannot observe membership")
        return []
    problems = []
    snaps = {}
    ever_released = set()

    def snapshot():
        kids = everyone + [c for c in made if c not in everyone]
        del everyone[:]
        everyone.extend(kids)
        return {
            "hatchery": set(map(id, pool._hatchery)),
            "mortuary": set(map(id, pool._mortuary)),
            "demand": {id(c): c.peek()["demand"] for c in kids},
            "supply": {id(c): c.peek()["supply"] for c in kids},
            "made": len(made),
            "request": pool.demand,
            "kids": kids,
        }

    def act(acts):
        def run():
            kids = everyone + [c for c in made if c not in everyone]
            for a in acts:
                if a[0] == "D":
                    pool.demand = a[1]
                elif a[0] == "zero" and kids:
                    kids[a[1] % len(kids)].poke(demand=0)
                elif a[0] == "supply":
                    for c in kids:
                        d = c.peek()["demand"]
                        c.poke(supply={"match": d, "double": 2 * d, "none": 0, "half": d / 2}[a[1]])
                elif a[0] == "supply1" and kids:
                    kids[a[1] % len(kids)].poke(supply=a[2])
                elif a[0] == "util" and kids:
                    kids[a[1] % len(kids)].poke(utilisation=a[2] if len(a) > 2 else 0.25, allocation=a[3] if len(a) > 2 else 0.5)
                    if len(a) > 2 and a[2] == 0:
                        result.count("children_reporting_no_utilisation")
        return run

    script = []
    n = len(case["cycles"])
    for k, acts in enumerate(case["cycles"]):
        script.append((k + 0.5, act(acts)))
        script.append((k + 0.75, (lambda k=k: snaps.__setitem__(("before", k), snapshot()))))
        script.append((k + 1.25, (lambda k=k: snaps.__setitem__(("after", k), snapshot()))))
    out = vt.run_virtual([pool] + ([other] if other is not None else []), script, until=n + 0.5)
    if out.errors:
        return [("run() raised %r" % (out.errors[0][1],), None)]
    if out.returned:
        return [("run() returned", None)]

    def bad(k, msg):
        problems.append(("cycle %d (%s): %s" % (k, case["cycles"][k], msg), None))

    for k in range(n):
        b, a = snaps.get(("before", k)), snaps.get(("after", k))
        if b is None or a is None:
            bad(k, "adjustment not observed")
            break
        result.count("adjustments_checked")
        D = b["request"]
        H0, H1, M1 = b["hatchery"], a["hatchery"], a["mortuary"]
        dem = a["demand"]
        names = {id(c): ("init%d" % initial.index(c)) if c in initial else "made%d" % made.index(c) for c in a["kids"]}
        if H1 & M1:
            bad(k, "children both active and released: %s" % [names[i] for i in H1 & M1])
        if H1 & ever_released:
            bad(k, "released children are active again: %s" % [names[i] for i in H1 & ever_released])
        new_kids = {id(c) for c in made[b["made"]: a["made"]]}
        unknown = (H1 | M1) - set(names)
        if unknown:
            bad(k, "children that no factory call produced")
        appeared = (H1 | M1) - (b["hatchery"] | b["mortuary"])
        if appeared != new_kids:
            bad(k, "children that appeared %s are not the factory products of this adjustment %s"
                % ([names.get(i, "?") for i in appeared], [names[i] for i in new_kids]))
        missing = [names[id(c)] for c in initial if id(c) not in (H1 | M1)]
        if missing:
            bad(k, "initial children %s are neither active nor released: the pool has lost them" % missing)
        if any(d == 0 for d, _ in case["initial"]):
            result.count("adjustments_with_initial_children_without_demand")
        released_now = (H0 - H1) | (new_kids - H1)
        lost = released_now - M1
        if lost:
            bad(k, "children left the active set without being released: %s" % [names[i] for i in lost])
        for i in released_now & M1:
            if dem[i] != 0:
                bad(k, "released child %s has demand %r" % (names[i], dem[i]))
        for i in H1:
            if dem[i] <= 0:
                bad(k, "active child %s has no demand left (%r) but was not released" % (names[i], dem[i]))
        active_demand = sum(dem[i] for i in H1)
        supply_before = sum(b["supply"].values())
        if new_kids:
            result.count("adjustments_grew")
            last = made[a["made"] - 1]
            if active_demand < D:
                bad(k, "grew, but active demand %r does not cover the request %r" % (active_demand, D))
            if active_demand - dem[id(last)] >= D and id(last) in H1:
                bad(k, "grew by one child too many: active demand %r without the last child %r still covers %r"
                    % (active_demand, dem[id(last)], D))
            if supply_before > D:
                bad(k, "spawned although supply %r exceeded the request %r" % (supply_before, D))
        released_with_demand = [i for i in (H0 - H1) if b["demand"][i] > 0]
        if released_with_demand:
            result.count("adjustments_released_demand")
            if active_demand < D:
                bad(k, "released %s, but the remaining active demand %r no longer covers the request %r"
                    % ([names[i] for i in released_with_demand], active_demand, D))
        if supply_before > D and not new_kids:
            result.count("adjustments_shrink_branch")
            excess = active_demand - D
            keepers = [i for i in H1 if 0 < dem[i] <= excess]
            if keepers:
                bad(k, "child %s (demand %r) could still be released: active demand %r, request %r"
                    % (names[keepers[0]], dem[keepers[0]], active_demand, D))
        ever_released |= M1
        # aggregation
        kids = a["kids"]
        members = [c for c in kids if id(c) in (H1 | M1)]
        want_supply = sum(c.peek()["supply"] for c in members)
        with_supply = [c for c in members if c.peek()["supply"] > 0]
        want_u = sum(c.peek()["utilisation"] for c in with_supply) / len(with_supply) if with_supply else 1.0
        want_a = sum(c.peek()["allocation"] for c in with_supply) / len(with_supply) if with_supply else 1.0
        got = (pool.supply, pool.utilisation, pool.allocation) if k == n - 1 else None
        if got is not None:
            if got[0] != want_supply or abs(got[1] - want_u) > 1e-12 or abs(got[2] - want_a) > 1e-12:
                bad(k, "aggregates (supply, utilisation, allocation) = %r, children give %r" % (got, (want_supply, want_u, want_a)))
            result.count("aggregations_checked")
    return problems[:3]


def gen_weak_case(rnd, spec):
    big = rnd.random() < 0.3  # generations of many children: what is released is collected, and new children move into the old addresses
    return {"weak": True, "sizes": rnd.choice([[1], [2], [1, 3], [0.5, 4]]),
            "requests": [rnd.choice([0, 1, 2, 3, 5, 8, 3, 3] + ([40, 80, 2, 0] if big else [])) for _ in range(rnd.randint(3, 10))], "collect": rnd.random() < 0.5}


def execute_weak(case, result):
    """Nobody but the pool holds on to the children its factory made: they must stay until the pool releases them."""
    import gc
    import weakref
    from cobald.composite.factory import FactoryPool

    refs, last_demand = [], []

    def factory():
        i = len(refs)
        child = RecPool(demand=case["sizes"][i % len(case["sizes"])], supply=0)
        last_demand.append(child.peek()["demand"])
        child.on_write = lambda _self, value, i=i: last_demand.__setitem__(i, value)  # no reference to the child itself
        refs.append(weakref.ref(child))
        return child

    pool = FactoryPool(factory=factory, interval=1)
    if not hasattr(pool, "_hatchery"):
        result.inconc("FactoryPool no longer exposes _hatchery")
        return []
    observations = []

    def act(k):
        def run():
            for child in list(pool._hatchery):
                child.poke(supply=child.peek()["demand"])  # every active child delivers what is asked of it
            pool.demand = case["requests"][k]
        return run

    def look(k):
        def run():
            if case["collect"]:
                gc.collect()
            observations.append((k, [r() is not None for r in refs], list(last_demand), len(refs), pool.demand,
                                 sum(c.peek()["demand"] for c in pool._hatchery), [c.peek()["demand"] for c in pool._hatchery]))
        return run

    script = []
    for k in range(len(case["requests"])):
        script += [(k + 0.5, act(k)), (k + 1.25, look(k))]
    out = vt.run_virtual([pool], script, until=len(case["requests"]) + 0.5)
    if out.errors:
        return [("run() raised %r" % (out.errors[0][1],), None)]
    problems = []
    for k, alive, demands, made, request, active, each in observations:
        result.count("adjustments_with_children_only_the_pool_holds")
        gone = [i for i, a in enumerate(alive) if not a and demands[i] != 0]
        if gone:
            problems.append(("cycle %d (requests %s): children %s made by the factory have vanished although they still have demand %s and were "
                             "never released - only the pool held them" % (k, case["requests"], gone, [demands[i] for i in gone]), None))
            break
        if active < request:
            problems.append(("cycle %d (requests %s): after the adjustment the active children's demand %r does not cover the request %r"
                             % (k, case["requests"], active, request), None))
            break
        if any(d <= 0 for d in each):
            problems.append(("cycle %d (requests %s): %d active children have no demand left and were not released" % (k, case["requests"], sum(1 for d in each if d <= 0)), None))
            break
        if k > 0 and request < case["requests"][k - 1] and any(0 < d <= active - request for d in each):
            # every child delivers what is asked of it, so after a lowered request any child whose demand fits into the excess could go
            problems.append(("cycle %d (requests %s): active demand %r for a request of %r: %d children could still be released"
                             % (k, case["requests"], active, request, sum(1 for d in each if 0 < d <= active - request)), None))
            break
        if len(each) >= 30:
            result.count("adjustments_with_30_or_more_children_only_the_pool_holds")
    return problems


def run_exhaustive(spec, result):
    thin = spec.get("thin", 1)
    count = 0
    for depth in range(1, spec["depth"] + 1):
        for word in itertools.product(range(len(ALPHABET)), repeat=depth):
            count += 1
            if count % thin or (count // thin) % spec.get("parts", 1) != spec.get("part", 0):
                continue
            if spec.get("only_depth") and depth != spec["only_depth"]:
                continue
            for initial in ([], [[1, 1]], [[2, 2], [1, 0]], [[0, 3], [2, 2]]):
                for sizes in ([1], [2, 1]):
                    case = {"initial": initial, "sizes": sizes, "cycles": [[ALPHABET[i]] for i in word]}
                    problems = execute(case, result)
                    result.case(case)
                    for what, mech in problems:
                        result.violation(what, case, mech, spec=spec, case_id=0)
    result.count("exhaustive_histories", result.evaluations)


def run_shard(spec):
    result = core.Result()
    pr = probe.LineProbe("composite/factory.py").start()
    try:
        if spec["kind"] == "exhaustive":
            run_exhaustive(spec, result)
        elif spec["kind"] == "weak":
            core.drive(PID, spec, gen_weak_case, execute_weak, result)
        else:
            core.drive(PID, spec, gen_case, execute, result)
    finally:
        pr.stop()
    pr.record(result)
    return result


def finish(total, tier):
    for name in ("adjustments_checked", "adjustments_grew", "adjustments_released_demand", "adjustments_shrink_branch",
                 "aggregations_checked", "exhaustive_histories", "adjustments_with_initial_children_without_demand", "pools_built_from_children_whose_supply_differs_from_their_demand", "cases_with_a_second_factory_pool", "adjustments_with_children_only_the_pool_holds", "adjustments_with_30_or_more_children_only_the_pool_holds"):
        if not total.counters.get(name) and not total.violations:
            total.inconc("monitor never observed: " + name)
