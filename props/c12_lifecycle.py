"""C12 - runtime lifecycle: exclusive accept, shutdown always completes, restart possible.

Monitor (E1): histories over several ServiceRunner instances in one process (2-5 generations,
each accept() in the main thread); the harness logs call / return / raised of every accept,
concurrent accept and shutdown per thread; payload heartbeats show whether the active runner
was disturbed; the next generation shows whether the exclusivity guard was released.
"""
from vlib import core
from vlib.rt import common

PID = "C12"

META = {
    "level": "exploration",
    "engine": "E1 runtime scenario engine",
    "rule": (
        "seeded random histories of 2-5 runner generations (a new ServiceRunner each, or - 30 % - the same instance accepting again); each generation: a payload population (none / "
        "sleeping and spinning coroutines / 100-200 sleeping coroutines / 30-240 services being created by 1-3 threads / blocked threads / trio payloads that keep calling execute(flavour=asyncio) / 1-3 submitter threads adopting payloads "
        "concurrently; before a third of the shutdowns 1-2 coroutine payloads that answer their cancellation by raising or by returning a value), 0-3 concurrent accept() attempts by other runners while it runs (half of them shut the rejected runner down afterwards, as a try/finally would), accept_delay "
        "0-0.3 s, and an ending in {shutdown from an outside thread, from a thread payload, from a worker thread of a trio / asyncio payload that waits for it, two to eight "
        "concurrent shutdowns (staggered by 0-10 ms, or released by a barrier), SIGINT to the main thread, KeyboardInterrupt raised in an asyncio / thread / "
        "trio payload, Exception failure, orphaned return, BaseException failure, shutdown racing a failing "
        "payload by -30..+30 ms}; line-level delay injection (with longer delays inside stop / shutdown); kind=late_stop: six forced schedules (a shutdown() preempted inside stop() before its 1st / 2nd / 3rd close request while the runtime ends by another shutdown or by a failure, resuming between the loop's last turn and loop.close()); kind=polling: the accept loop alone under a "
        "virtual clock, uptimes from 0 to 20000 polling cycles: a shutdown request is noticed within one accept_delay. Non-trivial = history of >= 2 generations that "
        "all reached `running`; distinct by history shape."
    ),
    "assumptions": [
        "shutdown() is only called once the runner reports running and never from inside an event-loop thread (a blocking call there is a programming error)",
        "'within bounded time' is restated as: accept ends within 8 s of the shutdown / interrupt (normal < 0.6 s)",
    ],
    "shard_timeout": {"quick": 900, "thorough": 3600},
}
ENDINGS = ["shutdown_outside", "shutdown_thread", "shutdown_double", "shutdown_trio_worker", "shutdown_asyncio_worker", "sigint", "kbint_asyncio", "kbint_thread", "kbint_trio",
           "fail_exception", "fail_return", "fail_base", "race_failure"]


def plan(tier, seed):
    if tier == "thorough":
        return [dict(seed=seed, shard=i, n=60) for i in range(16)] + [dict(seed=seed, shard="polling", kind="polling", n=400), dict(seed=seed, shard="late_stop", kind="late_stop"),
                                                                   dict(seed=seed, shard="bursts", kind="bursts", n=30),
                                                                   dict(seed=seed, shard="twin", kind="twin", n=12), dict(seed=seed, shard="reaccept0", kind="reaccept", n=12), dict(seed=seed, shard="reaccept1", kind="reaccept", n=12)]
    return [dict(seed=seed, shard=i, n=5) for i in range(16)] + [dict(seed=seed, shard="polling", kind="polling", n=60), dict(seed=seed, shard="late_stop", kind="late_stop"),
                                                                  dict(seed=seed, shard="bursts", kind="bursts", n=4), dict(seed=seed, shard="reaccept", kind="reaccept", n=2), dict(seed=seed, shard="twin", kind="twin", n=3)]


def gen_generation(rnd, index, ending):
    # accept_delay 0: the accept loop polls without pausing (a legal, if wasteful, setting)
    gen = {"accept_delay": rnd.choice([0.01, 0.03, 0.05, 0.1, 0.3, 0, 0]), "payloads": [], "services": [], "grace": 0.15}
    script = [["wait_running", 10]]
    population = rnd.choice(["none", "sleepers", "sleepers", "blocked", "mixed", "submitters", "cross", "many", "services", "dispatcher", "stubborn"])
    if population == "services":
        # services keep being created by other threads while the accept loop polls: nothing of that may end the runner
        sid = 0
        for t in range(rnd.randint(1, 3)):
            ops = []
            for j in range(rnd.randint(30, 80)):
                gen["services"].append({"id": "sv%d" % sid, "flavour": rnd.choice(common.FLAVOURS), "program": [["sleep", 0.005]]})
                ops.append(["service", "sv%d" % sid])
                if rnd.random() < 0.2:
                    ops.append(["sleep", rnd.choice([0.0, 0.002])])
                sid += 1
            script.append(["thread", ops])
    if population == "dispatcher":
        # a thread payload keeps handing over trio payloads, also while the runtime finishes the cleanup of a slow one
        gen["payloads"].append({"id": "slow", "flavour": "trio", "when": "queued", "program": [["block"]],
                                "cleanup": {"kind": "shielded", "dur": rnd.choice([0.15, 0.3, 0.5])}})
        gen["payloads"].append({"id": "streamer", "flavour": "threading", "when": "queued", "cleanup": {"kind": "none"},
                                "program": [["adopt_stream", rnd.choice(["trio", "trio", "asyncio", "threading"]), rnd.choice([0.002, 0.005])]]})
    if population == "stubborn":
        # asyncio payloads that finish what they are doing first: they only end when they are cancelled a second or third time
        for i in range(rnd.randint(1, 2)):
            gen["payloads"].append({"id": "stub%d" % i, "flavour": "asyncio", "when": "queued", "program": rnd.choice([[["beat", 0.01, None]], [["block"]]]),
                                    "cleanup": {"kind": "absorb", "times": rnd.choice([1, 1, 2])}})
    if population == "services" and rnd.random() < 0.5:
        # ... and several hundred trio services that exist before the runner starts: the first sweep hands them all over at once
        for k in range(rnd.choice([300, 450, 600])):
            gen["services"].append({"id": "early%d" % k, "flavour": "trio", "program": [["sleep", 0.005]], "create": "before"})
        gen["early_services"] = True
    if population == "many":
        # a large population of sleeping coroutines: ending the runtime must not take time per payload
        for i in range(rnd.choice([100, 150, 200])):
            gen["payloads"].append({"id": "m%d" % i, "flavour": rnd.choice(["asyncio", "asyncio", "trio"]), "when": "queued", "program": [["block"]], "cleanup": {"kind": "none"}})
    if population == "cross":
        # trio payloads that keep calling into the asyncio runner: one of them is usually inside execute() when the end comes
        for i in range(rnd.randint(1, 3)):
            gen["payloads"].append({"id": "xs%d" % i, "flavour": "asyncio", "executed": True, "cleanup": {"kind": "none"},
                                    "program": [["sleep", rnd.choice([0.01, 0.02, 0.04])], ["return", "none"]]})
            # adopted once the runtime runs: queued before start, a trio payload that calls into asyncio while the start-up is
            # still unqueueing deadlocks it (the recorded finding C10/startup-unqueue-deadlock; seen here in a thorough sweep)
            gen["payloads"].append({"id": "cross%d" % i, "flavour": "trio", "cleanup": {"kind": "none"},
                                    "program": [["sleep", 0.02], ["exec_loop", "xs%d" % i, 400, rnd.choice([0.0, 0.005])]]})
            script.append(["adopt", "cross%d" % i])
        # ... and a thread payload inside a long synchronous query of the asyncio runner when the end comes
        gen["payloads"].append({"id": "xq", "flavour": "asyncio", "executed": True, "cleanup": {"kind": "none"},
                                "program": [["sleep", 0.1], ["sleep", 0.1], ["sleep", 0.1], ["return", "none"]]})
        gen["payloads"].append({"id": "tquery", "flavour": "threading", "cleanup": {"kind": "none"}, "program": [["sleep", 0.02], ["exec_loop", "xq", 100, 0.0, "strict"]]})
        script.append(["adopt", "tquery"])
    if population in ("sleepers", "mixed", "submitters"):
        for i in range(rnd.randint(1, 4)):
            flavour = rnd.choice(common.COROUTINE)
            p = {"id": "s%d" % i, "flavour": flavour, "program": rnd.choice([[["beat", 0.01, None]], [["spin", None]], [["beat", 0.03, None]]]),
                 "cleanup": rnd.choice([{"kind": "none"}, {"kind": "sync", "dur": 0.01}]), "when": rnd.choice(["queued", "running"])}
            gen["payloads"].append(p)
            if p["when"] == "running":
                script.append(["adopt", p["id"]])
    if population in ("blocked", "mixed"):
        for i in range(rnd.randint(1, 3)):
            gen["payloads"].append({"id": "blk%d" % i, "flavour": "threading", "program": [["block"]], "when": "queued", "cleanup": {"kind": "none"}})
    # a heartbeat that shows whether the active runner is disturbed
    gen["payloads"].append({"id": "heart", "flavour": rnd.choice(common.COROUTINE), "program": [["beat", 0.01, None]], "when": "queued", "cleanup": {"kind": "none"}})
    if population == "submitters":
        for t in range(rnd.randint(1, 3)):
            ops = []
            for j in range(rnd.randint(8, 30)):
                pid = "sub%d_%d" % (t, j)
                # short-lived and long-lived payloads: the latter are still alive when the runtime closes
                program = rnd.choice([[["sleep", 0.01]], [["beat", 0.01, 3]], [["beat", 0.01, None]], [["block"]], [["spin", None]]])
                flavour = rnd.choice(common.FLAVOURS)
                if flavour == "threading" and program[0][0] in ("spin",):
                    program = [["block"]]
                gen["payloads"].append({"id": pid, "flavour": flavour, "program": program, "cleanup": {"kind": "none"},
                                        "callable": rnd.choice(["function", "function", "lambda", "partial", "object", "method", "nomodule", "unhashable"])})
                ops += [["adopt", pid], ["sleep", rnd.choice([0.0, 0.005, 0.02, 0.03])]]
            if rnd.random() < 0.4:
                # the submitter is a thread payload of the runtime itself
                gen["payloads"].append({"id": "submitter%d" % t, "flavour": "threading", "cleanup": {"kind": "none"},
                                        "program": [op + ["strict"] if op[0] == "adopt" else op for op in ops]})
                script.append(["adopt", "submitter%d" % t])
            else:
                script.append(["thread", ops])
    n_second = rnd.choice([0, 0, 1, 2, 3])
    for k in range(n_second):
        script.append(["thread", [["second_accept", "cleanup"] if rnd.random() < 0.5 else ["second_accept"]]])
        script.append(["wait_event", "raised", None, 0.5])
    if n_second:
        script.append(["sleep", 0.05])
        script.append(["wait_event", "beat", "heart", 1.0])
    script.append(["sleep", rnd.choice([0.0, 0.02, 0.1, 0.2])])
    meta = {"ending": ending, "population": population, "second_accepts": n_second}
    if ending in ("shutdown_outside", "shutdown_thread", "shutdown_double") and rnd.random() < 0.35:
        # payloads that answer the cancellation at shutdown with a failure of their own
        for i in range(rnd.randint(1, 2)):
            how = rnd.choice(["raise", "return"])
            gen["payloads"].append({"id": "grumpy%d" % i, "flavour": rnd.choice(common.COROUTINE), "when": rnd.choice(["queued", "running"]),
                                    "program": rnd.choice([[["beat", 0.01, None]], [["block"]]]),
                                    "cleanup": {"kind": "fail_on_cancel", "how": how,
                                                "what": rnd.choice(["OSError", "LookupError", "CustomWithArgs"]) if how == "raise" else rnd.choice(["str", "list", "dict"])}})
            if gen["payloads"][-1]["when"] == "running":
                script.insert(1, ["adopt", "grumpy%d" % i])
        meta["grumpy"] = sorted({p["flavour"] for p in gen["payloads"] if p["id"].startswith("grumpy")})
    if ending == "shutdown_outside":
        script.append(["shutdown"])
    elif ending == "shutdown_thread":
        gen["payloads"].append({"id": "trigger", "flavour": "threading", "program": [["shutdown"]], "cleanup": {"kind": "none"}})
        script.append(["adopt", "trigger"])
    elif ending in ("shutdown_trio_worker", "shutdown_asyncio_worker"):
        # shutdown() runs in a worker thread of a coroutine payload's own framework and the payload waits for it
        fl = "trio" if ending == "shutdown_trio_worker" else "asyncio"
        gen["payloads"].append({"id": "trigger", "flavour": fl, "program": [["shutdown_in_worker"]], "cleanup": {"kind": "none"}})
        script.append(["adopt", "trigger"])
    elif ending == "shutdown_double" and rnd.random() < 0.5:
        script.append(["shutdown_burst", rnd.choice([2, 4, 8, 8])])  # at the very same instant
    elif ending == "shutdown_double":
        for _ in range(rnd.choice([1, 2])):
            script.append(["thread", [["sleep", rnd.choice([0.0, 0.002, 0.01])], ["shutdown"]]])
        script.append(["shutdown"])
    elif ending == "sigint":
        script.append(["sigint"])
    elif ending.startswith("kbint_"):
        fl = {"asyncio": "asyncio", "thread": "threading", "trio": "trio"}[ending.split("_")[1]]
        gen["payloads"].append({"id": "trigger", "flavour": fl, "program": [["sleep", 0.01], ["raise", "KeyboardInterrupt"]], "cleanup": {"kind": "none"}})
        script.append(["adopt", "trigger"])
    elif ending in ("fail_exception", "fail_return", "fail_base"):
        op = {"fail_exception": ["raise", rnd.choice(["LookupError", "CustomWithArgs"])], "fail_return": ["return", rnd.choice(["zero", "str"])],
              "fail_base": ["raise", rnd.choice(["CustomBase", "GeneratorExit"])]}[ending]
        gen["payloads"].append({"id": "trigger", "flavour": rnd.choice(common.FLAVOURS), "program": [["sleep", 0.01], op], "cleanup": {"kind": "none"}})
        script.append(["adopt", "trigger"])
    elif ending == "race_failure":
        lead = rnd.choice([0.0, 0.01, 0.02, 0.03, 0.05])
        gen["payloads"].append({"id": "trigger", "flavour": rnd.choice(common.FLAVOURS),
                                "program": [["sleep", 0.03], [rnd.choice(["raise", "return"]), "LookupError" if rnd.random() < 2 else ""]], "cleanup": {"kind": "none"}})
        if gen["payloads"][-1]["program"][1][0] == "return":
            gen["payloads"][-1]["program"][1][1] = "str"
        script.append(["adopt", "trigger"])
        script.append(["sleep", lead])
        script.append(["shutdown"])
    script.append(["expect_end", 8.0])
    gen["script"] = script
    gen["meta"] = meta
    return gen


def gen_bursts(rnd, spec):
    """Several short-lived runners, each ended by 8 shutdown() calls released at the same instant."""
    gens = []
    for g in range(6):
        gen = {"accept_delay": rnd.choice([0.01, 0.02]), "services": [], "grace": 0.1,
               "payloads": [{"id": "heart", "flavour": rnd.choice(common.COROUTINE), "program": [["beat", 0.01, None]], "when": "queued", "cleanup": {"kind": "none"}}],
               "script": [["wait_running", 10], ["sleep", rnd.choice([0.0, 0.01, 0.03])], ["shutdown_burst", 8], ["expect_end", 8.0]],
               "meta": {"ending": "shutdown_double", "population": "none", "second_accepts": 0}}
        if g > 0 and rnd.random() < 0.3:
            gen["reuse_runner"] = True
        gens.append(gen)
    return {"watchdog": 45, "inject": common.inject_conf(rnd, 0.3), "generations": gens, "meta": {"endings": ["shutdown_double"] * len(gens)}}


def gen_reaccept(rnd, spec):
    """accept() is called again on the accepting runner - also while a shutdown() request waits for the polling loop.

    With an accept_delay of one second the loop pauses about half a second between two looks at its flags once it
    has run for 1.7 s: a shutdown() made then is pending for a while, and the rejected accept falls into that window.
    """
    gens = []
    for g in range(2):
        pending = g == 0 or rnd.random() < 0.6
        script = [["wait_running", 10], ["sleep", 1.7]]
        if pending:
            script += [["thread", [["shutdown"]]], ["sleep", rnd.choice([0.01, 0.03, 0.08])]]
        for _ in range(rnd.choice([1, 1, 2])):
            script += [["thread", [["second_accept", "same"]]], ["wait_event", "raised", None, 0.5]]
        if not pending:
            script += [["wait_event", "beat", "heart", 1.0], ["shutdown"]]
        script.append(["expect_end", 8.0])
        gens.append({"accept_delay": 1.0, "services": [], "grace": 0.1, "script": script,
                     "payloads": [{"id": "heart", "flavour": rnd.choice(common.COROUTINE), "program": [["beat", 0.01, None]], "when": "queued", "cleanup": {"kind": "none"}}],
                     "meta": {"ending": "shutdown_thread" if pending else "shutdown_outside", "population": "none", "second_accepts": 1, "pending": pending}})
    return {"watchdog": 45, "inject": None, "generations": gens, "meta": {"endings": [g["meta"]["ending"] for g in gens]}}


def gen_case(rnd, spec):
    if spec.get("kind") == "bursts":
        return gen_bursts(rnd, spec)
    if spec.get("kind") == "reaccept":
        return gen_reaccept(rnd, spec)
    n = rnd.choice([2, 2, 3, 3, 4, 5])
    gens = []
    for g in range(n):
        idx = spec.get("case_index", 0) * 7 + g
        ending = ENDINGS[idx % len(ENDINGS)] if rnd.random() < 0.7 else rnd.choice(ENDINGS)
        gens.append(gen_generation(rnd, g, ending))
        if g > 0 and rnd.random() < 0.3:
            gens[-1]["reuse_runner"] = True  # the very same runner instance accepts once more
        if g > 0 and gens[g - 1]["meta"]["second_accepts"] and any(op == ["thread", [["second_accept", "cleanup"]]] for op in gens[g - 1]["script"]):
            # the runner that was refused in the previous generation (and shut down by its owner's cleanup) accepts now: it must
            # really accept - a service defined after its start is started
            gens[-1]["use_rejected_runner"] = True
            gens[-1].pop("reuse_runner", None)
            gens[-1]["services"].append({"id": "probe", "flavour": rnd.choice(common.FLAVOURS), "program": [["sleep", 0.01]]})
            at = next(k for k, op in enumerate(gens[-1]["script"]) if op[0] == "wait_running") + 1
            gens[-1]["script"][at:at] = [["service", "probe"], ["wait_event", "start", "svc:probe", 4.0]]
    inject = common.inject_conf(rnd, 0.8)
    doubles = any(g["meta"]["ending"] == "shutdown_double" for g in gens)
    if rnd.random() < (0.75 if doubles else 0.3):
        # stretch the windows inside stop(): a second shutdown may find the runner or the loop already gone
        inject = inject or {"seed": rnd.randint(0, 10**6), "p_yield": 0.2, "p_sleep": 0.0}
        where = rnd.choice(["BaseRunner.stop", "BaseRunner.stop", "MetaRunner.stop", "ServiceRunner.shutdown"])
        inject["hot"] = {where: rnd.choice([0.1, 0.3])}
        if rnd.random() < 0.5:
            # ... and the loop lingers between its last turn and close(): a stop() request can arrive in between
            inject["hot"]["Runner.close"] = rnd.choice([0.02, 0.05, 0.1])
    if any(g.get("early_services") for g in gens):
        # hundreds of services make every sweep of the accept loop thousands of statements long: with a delay injected at
        # statement boundaries the loop crawls (one sweep took 8 s) and answers nothing meanwhile - the harness's doing
        inject = None
    elif inject and any(g["meta"]["population"] == "services" for g in gens):
        inject = dict(inject, p_yield=min(inject.get("p_yield", 0.0), 0.1), p_sleep=0.0)
    return {"watchdog": 45, "inject": inject, "generations": gens,
            "meta": {"endings": [g["meta"]["ending"] for g in gens]}}


def run_late_stop_shard(spec, result):
    """Forced schedule (vlib/rt/late_stop.py): a shutdown() whose close request reaches the event loop between the
    loop's last turn and loop.close() - found once by the random histories under load, decided here on every run."""
    import json
    import os
    import subprocess

    for which in (0, 1, 2):
        for ending in ("shutdown", "failure"):
            case = {"kind": "late_stop", "parked_request": which, "runtime_ends_by": ending}
            env = dict(os.environ)
            try:
                proc = subprocess.run([core.PYTHON, "-m", "vlib.rt.late_stop", str(which), ending], capture_output=True, text=True, timeout=90, env=env)
                out = json.loads(proc.stdout.strip().splitlines()[-1])
            except Exception as err:  # noqa: B902
                result.inconc("forced late-stop schedule %s did not run: %r" % (case, err))
                continue
            result.case(dict(case, observed=out), nontrivial=bool(out.get("window_reached")), key=json.dumps(case))
            if out.get("inconclusive"):
                result.inconc("forced late-stop schedule %s: %s" % (case, out["inconclusive"]))
                continue
            if not out.get("window_reached"):
                result.inconc("forced late-stop schedule %s never reached the window before loop.close()" % (case,))
                continue
            result.count("forced_late_stop_schedules_checked")
            if out["late_shutdown"] != "returned":
                result.violation("a shutdown() preempted inside stop() (before its close request no. %d) while the runtime ended by %s, resuming "
                                 "between the event loop's last turn and loop.close(): %s (accept: %s)"
                                 % (which + 1, ending, out["late_shutdown"], out.get("accept")), dict(case, observed=out), None, spec=spec, case_id=which * 2 + (ending == "failure"))


def run_twin_shard(spec, result):
    """Forced schedule (vlib/rt/twin_accept.py): 2-4 service runners call accept() at the same instant, every statement
    boundary inside the guard stretched: one is admitted, the others are refused while it accepts."""
    import json
    import os
    import subprocess

    only = spec.get("only_case")
    for idx in range(spec["n"]):
        if only is not None and idx != only:
            continue
        callers = 2 + idx % 3
        case = {"kind": "twin", "callers": callers, "seed": spec["seed"] * 100 + idx}
        try:
            proc = subprocess.run([core.PYTHON, "-m", "vlib.rt.twin_accept", str(callers), str(case["seed"])], capture_output=True, text=True, timeout=90, env=dict(os.environ))
            out = json.loads(proc.stdout.strip().splitlines()[-1])
        except Exception as err:  # noqa: B902
            result.inconc("forced twin-accept schedule %s did not run: %r" % (case, err))
            continue
        result.case(dict(case, observed=out), nontrivial=True, key=json.dumps(case))
        if out.get("inconclusive"):
            result.inconc("forced twin-accept schedule %s: %s" % (case, out["inconclusive"]))
            continue
        result.count("simultaneous_accept_schedules_checked")
        what = None
        others = [o for i, o in enumerate(out["while_winner_accepting"]) if i != out["winner"]]
        if len(out["admitted_together"]) > 1:
            what = "%d runners were accepting at the same time" % len(out["admitted_together"])
        elif any(o != "refused" for o in others):
            what = ("one second after runner %d had been admitted the other callers were %r: a concurrent accept is refused with RuntimeError, it does not wait (afterwards admitted: %r)"
                    % (out["winner"], ["still waiting" if o is None else o for o in others], out["admitted_after_the_winner_ended"]))
        elif out["admitted_after_the_winner_ended"]:
            what = "callers %r were admitted after the winner had ended" % out["admitted_after_the_winner_ended"]
        if what:
            result.violation("%d runners calling accept() at the same instant: %s" % (callers, what), dict(case, observed=out), None,
                             spec={k: v for k, v in spec.items() if k != "only_case"}, case_id=idx)


def run_polling_shard(spec, result):
    """The accept loop's polling under a virtual clock: however long the runner has been up, a shutdown request is
    noticed within one accept_delay, and the loop sweeps the services at least that often."""
    import trio
    import trio.testing
    from cobald.daemon.runners.service import ServiceRunner

    only = spec.get("only_case")
    for i in range(spec["n"]):
        if only is not None and i != only:
            continue
        rnd = core.rng(PID, spec["seed"], "polling", i)
        delay = rnd.choice([0.01, 0.05, 0.1, 0.3, 1, 1, 5])
        uptime = rnd.choice([0, delay / 3, delay * 2.5, delay * 17.3, delay * 250.7, delay * 3000.3, delay * 20000.7])  # up to 20000 sweeps
        case = {"kind": "polling", "accept_delay": delay, "uptime": uptime}
        runner = ServiceRunner(accept_delay=delay)
        if not hasattr(runner, "_accept_services") or not hasattr(runner, "_adopt_services") or not hasattr(runner, "_must_shutdown"):
            result.inconc("ServiceRunner no longer has the anchored polling loop (_accept_services / _adopt_services / _must_shutdown)")
            return
        sweeps = []
        runner._adopt_services = lambda: sweeps.append(trio.current_time())
        times = {}

        async def loop():
            await runner._accept_services()
            times["ended"] = trio.current_time()

        async def main():
            # virtual time: a loop that never notices the request would run for ever, so the run is cut after a virtual quarter of an hour
            with trio.move_on_after(uptime + 900) as scope:
                async with trio.open_nursery() as nursery:
                    nursery.start_soon(loop)
                    await trio.sleep(uptime)
                    runner._must_shutdown = True
                    times["requested"] = trio.current_time()
            times["cut"] = scope.cancelled_caught

        trio.run(main, clock=trio.testing.MockClock(autojump_threshold=0))
        result.case(case, key=("polling", delay, uptime))
        result.count("polling_loops_checked")
        result.count("polling_sweeps_observed", len(sweeps))
        if times.get("cut") or "ended" not in times:
            clean = {k: v for k, v in spec.items() if k != "only_case"}
            result.violation("after %.2f s of uptime a shutdown request was never noticed by the polling loop (accept_delay %.3f; given up after 900 virtual seconds)"
                             % (uptime, delay), case, None, spec=clean, case_id=i)
            continue
        latency = times["ended"] - times["requested"]
        gaps = [b - a for a, b in zip(sweeps, sweeps[1:])]
        what = None
        if latency > delay * (1 + 1e-9):
            what = "after %.2f s of uptime a shutdown request was only noticed after %.3f s (accept_delay %.3f)" % (uptime, latency, delay)
        elif gaps and max(gaps) > delay * (1 + 1e-9):
            what = "services are only looked for every %.3f s although accept_delay is %.3f" % (max(gaps), delay)
        if what:
            clean = {k: v for k, v in spec.items() if k != "only_case"}
            result.violation(what, case, None, spec=clean, case_id=i)


def judge(case, run, result):
    trouble = common.harness_trouble(run)
    if trouble:
        result.inconc(trouble)
        return []
    problems = []
    hung = common.watchdog_fired(run)
    prev_ending = None
    for g, gen in enumerate(case["generations"]):
        meta = gen["meta"]
        ending = meta["ending"]
        started = run.first("generation", gen=g)
        if started is None:
            if hung:
                problems.append(("history %s: process hung before generation %d (after ending %s): %s"
                                 % (case["meta"]["endings"], g, prev_ending, run.stacks[-1200:]), None))
            break
        ended = run.first("accept-ended", gen=g)
        running = run.first("running-observed", gen=g)
        if running is None:
            why = ended and (ended.get("exc"), ended.get("msg"))
            problems.append(("generation %d: a new runner did not reach running after the previous accept ended by %s (accept: %s)"
                             % (g, prev_ending, why), None))
            break
        if started.get("rejected_runner"):
            result.count("runners_accepting_after_they_had_been_refused_and_shut_down")
            if [e for e in run.of("wait-timeout", gen=g) if e.get("awaited") == ["start", "svc:probe"]]:
                problems.append(("generation %d: a runner that had been refused earlier (and shut down by its owner) reported running, but a service defined afterwards was not started within 4 s: it does not accept" % g, None))
        if g > 0:
            result.count("restarts_after_" + prev_ending)
            if gen.get("reuse_runner"):
                result.count("restarts_of_the_same_runner_instance")
        # (1) concurrent accepts are rejected, the active runner is undisturbed
        seconds_called = run.of("call", gen=g, op="second_accept")
        seconds_raised = run.of("raised", gen=g, op="second_accept")
        for e in seconds_raised:
            if e["exc"] != "RuntimeError":
                problems.append(("generation %d: concurrent accept raised %s(%s), expected RuntimeError" % (g, e["exc"], e["msg"]), None))
        if len(seconds_raised) < len(seconds_called) or run.of("return", gen=g, op="second_accept"):
            problems.append(("generation %d: %d of %d concurrent accept() calls were not rejected while the first runner was accepting"
                             % (g, len(seconds_called) - len(seconds_raised), len(seconds_called)), None))
        elif seconds_called:
            result.count("concurrent_accepts_rejected", len(seconds_raised))
            if any(e.get("same") for e in seconds_called):
                result.count("accepts_on_the_accepting_runner_itself_rejected")
                asked, done = run.first("call", gen=g, op="shutdown"), run.first("return", gen=g, op="shutdown")
                if asked and any(asked["seq"] < e["seq"] and (done is None or e["seq"] < done["seq"]) for e in seconds_raised):
                    # observed, not planned: the refusal came between a shutdown() call and its return
                    result.count("accepts_on_the_accepting_runner_rejected_while_a_shutdown_request_was_pending")
            for e in run.of("raised", gen=g, op="shutdown-of-rejected-runner"):
                problems.append(("generation %d: shutdown() of a runner whose accept had been rejected raised %s(%s)" % (g, e["exc"], e["msg"]), None))
            if run.of("rejected-runner-shut-down", gen=g):
                result.count("rejected_runners_shut_down_beside_the_active_one")
                stops = [e for e in (run.first("call", gen=g, op="shutdown"), run.first("fail", gen=g), run.first("mark", gen=g)) if e is not None]
                first_stop = min(stops, key=lambda e: e["seq"]) if stops else None  # whichever came first
                if ended is not None and (first_stop is None or ended["seq"] < first_stop["seq"]):
                    problems.append(("generation %d: the active runner's accept ended (%s) before anybody stopped it - after a rejected runner was shut down"
                                     % (g, ended.get("outcome")), None))
            stalled = [e for e in run.of("wait-timeout", gen=g) if e.get("awaited") == ["beat", "heart"]]
            if stalled:
                problems.append(("generation %d: the active runner's heartbeat stopped after a rejected concurrent accept" % g, None))
        # (2) shutdown returns without raising
        calls = run.of("call", gen=g, op="shutdown")
        for e in run.of("raised", gen=g, op="shutdown"):
            mech = None
            problems.append(("generation %d (ending %s): shutdown() by %s raised %s(%s)" % (g, ending, e["by"], e["exc"], e["msg"]), mech))
        returned = run.of("return", gen=g, op="shutdown")
        raised = run.of("raised", gen=g, op="shutdown")
        if len(returned) + len(raised) < len(calls):
            problems.append(("generation %d (ending %s): %d shutdown() call(s) never returned" % (g, ending, len(calls) - len(returned) - len(raised)), None))
        result.count("shutdown_calls_returned", len(returned))
        # accept ends, and in the right way
        if ended is None or run.of("accept-still-running", gen=g):
            problems.append(("generation %d (ending %s, population %s): accept did not end within 8 s%s"
                             % (g, ending, meta["population"], (": " + run.stacks[-1200:]) if hung else ""), None))
            break
        result.count("ending_" + ending)
        if meta["population"] == "services":
            result.count("endings_while_services_are_being_created")
            if gen.get("early_services"):
                result.count("generations_starting_with_300_to_600_trio_services")
        if meta["population"] == "many":
            result.count("endings_with_100_to_200_sleeping_coroutines")
        if meta["population"] == "stubborn":
            result.count("endings_with_asyncio_payloads_that_must_be_cancelled_repeatedly")
            result.count("ending_%s_with_stubborn_asyncio_payloads" % ending)
        if meta["population"] == "dispatcher":
            asked = run.first("call", gen=g, op="shutdown") or run.first("fail", gen=g)
            inside = [e for e in run.of("stream-adopt", gen=g) if asked and asked["seq"] < e["seq"] < ended["seq"]]
            if inside:
                result.count("endings_while_a_thread_payload_kept_adopting", 1)
                result.count("adoptions_by_a_thread_payload_while_the_runtime_was_ending", len(inside))
        if gen["accept_delay"] == 0:
            result.count("generations_with_accept_delay_0")
        fails = [e for e in run.of("fail", gen=g) if e["seq"] < ended["seq"]]
        if ending in ("shutdown_outside", "shutdown_thread", "shutdown_double", "shutdown_trio_worker", "shutdown_asyncio_worker", "sigint", "kbint_asyncio", "kbint_thread", "kbint_trio"):
            if meta["population"] == "cross" and run.of("call", gen=g, op="execute"):
                result.count("endings_with_trio_payloads_calling_into_asyncio")
            if meta.get("grumpy") and run.of("fail-on-cancel", gen=g):
                for fl in {p["flavour"] for p in gen["payloads"] if p["id"] in {e["pid"] for e in run.of("fail-on-cancel", gen=g)}}:
                    result.count("shutdowns_with_%s_payload_failing_on_cancellation" % fl)
            if ended["outcome"] != "returned":
                mech = "C12/keyboardinterrupt-in-trio-payload" if ending == "kbint_trio" and ended.get("exc") in ("BaseExceptionGroup", "ExceptionGroup", "KeyboardInterrupt") else None
                flavours = {p["id"]: p["flavour"] for p in gen["payloads"]}
                blamed = ended.get("matched") or []
                if blamed and all(pid.startswith("grumpy") and flavours.get(pid) == "trio" for pid in blamed):
                    # what accept raised is exactly what trio payload(s) raised / returned in answer to their cancellation
                    mech = "C12/trio-payload-failing-on-cancel-fails-shutdown"
                problems.append(("generation %d: ending %s: accept raised %s(%s) instead of returning normally"
                                 % (g, ending, ended.get("exc"), ended.get("msg")), mech))
        elif ending in ("fail_exception", "fail_return", "fail_base"):
            if fails and ended["outcome"] != "raised":
                problems.append(("generation %d: ending %s: accept returned normally although a payload failed" % (g, ending), None))
        else:  # race_failure: either is fine, but it must be one of the two
            if ended["outcome"] == "raised" and not fails:
                problems.append(("generation %d: shutdown racing a failure: accept raised %s(%s) although no payload had failed yet"
                                 % (g, ended.get("exc"), ended.get("msg")), None))
            result.count("race_outcome_" + ended["outcome"])
        if run.first("generation-end", gen=g) and run.first("generation-end", gen=g).get("running_flag"):
            problems.append(("generation %d: the runner still reports running after accept ended" % g, None))
        prev_ending = ending
    else:
        result.count("histories_completed")
    return problems[:4]


def execute(case, result):
    run = common.run_and_observe(case, result)
    return judge(case, run, result), run


def run_shard(spec):
    result = core.Result()
    if spec.get("kind") == "polling":
        run_polling_shard(spec, result)
        return result
    if spec.get("kind") == "twin":
        run_twin_shard(spec, result)
        return result
    if spec.get("kind") == "late_stop":
        run_late_stop_shard(spec, result)
        return result
    only = spec.get("only_case")
    for i in range(spec["n"]):
        if only is not None and i != only:
            continue
        case = gen_case(core.rng(PID, spec["seed"], spec["shard"], i), dict(spec, case_index=i * 16 + (spec["shard"] if isinstance(spec["shard"], int) else 0)))
        problems, run = execute(case, result)
        result.case(common.sample(case, run, **{"endings": case["meta"]["endings"]}),
                    nontrivial=len(run.of("running-observed")) >= 2,
                    key=common.shape(case) + str(case["meta"]))
        for what, mech in problems:
            clean = {k: v for k, v in spec.items() if k != "only_case"}
            result.violation(what, {"scenario": case, "run": run.witness()}, mech, spec=clean, case_id=i)
    return result


def finish(total, tier):
    need = ["histories_completed", "polling_loops_checked", "restarts_of_the_same_runner_instance", "concurrent_accepts_rejected", "shutdown_calls_returned", "race_outcome_returned", "forced_late_stop_schedules_checked", "generations_starting_with_300_to_600_trio_services", "runners_accepting_after_they_had_been_refused_and_shut_down", "simultaneous_accept_schedules_checked", "endings_while_a_thread_payload_kept_adopting", "endings_with_asyncio_payloads_that_must_be_cancelled_repeatedly", "accepts_on_the_accepting_runner_itself_rejected", "accepts_on_the_accepting_runner_rejected_while_a_shutdown_request_was_pending",
            "endings_with_trio_payloads_calling_into_asyncio", "rejected_runners_shut_down_beside_the_active_one", "endings_with_100_to_200_sleeping_coroutines", "endings_while_services_are_being_created", "generations_with_accept_delay_0", "shutdowns_with_asyncio_payload_failing_on_cancellation", "shutdowns_with_trio_payload_failing_on_cancellation"]
    need += ["ending_" + e for e in ENDINGS] + ["restarts_after_" + e for e in ENDINGS]
    for name in need:
        if not total.counters.get(name) and not total.violations:
            total.inconc("monitor never observed: " + name)
