"""C08 - controllers move demand only in the documented direction and amount.

Monitors: a recording pool (every read/write in order) and call logs of rules / delegate
controllers.  LinearController, RelativeSupplyController and DemandSwitch are driven through
regulate(interval); Stepwise only has run(), so it runs under the virtual clock (E2) with
pool changes scripted between steps.
"""
import math

from vlib import core, probe, vt
from vlib.doubles import RecPool

PID = "C08"

META = {
    "level": "exploration",
    "engine": "E3 reference model + E2 virtual time (Stepwise)",
    "rule": (
        "seeded random cases per controller kind: pool states with utilisation/allocation "
        "exactly on, one ulp below and one ulp above each threshold; dyadic rates/intervals "
        "(regulate() is called with intervals different from the configured one); rule and "
        "slave tables with 0-8 thresholds in shuffled declaration order and supplies/demands "
        "on, just below and just above every threshold; sequences of 1-50 steps with state "
        "changes in between; accepted and rejected constructor parameters. Non-trivial = at "
        "least one step whose selected branch/rule/delegate is not the default one."
    ),
    "assumptions": [
        "pool values are non-negative (supply >= 0), as the pool model prescribes",
        "rates, intervals and demands are dyadic rationals, so demand arithmetic is exact",
        "when both Linear conditions hold (utilisation < low and allocation > high) either direction is accepted",
    ],
    "shard_timeout": {"quick": 300, "thorough": 1500},
}
KINDS = ["linear", "relative", "stepwise", "switch", "ctor"]


def plan(tier, seed):
    n = 40000 if tier == "thorough" else 1200
    specs = []
    for kind in KINDS:
        for s in core.shards(seed, n, 3 if tier == "thorough" else 1, kind=kind):
            s["shard"] = "%s-%s" % (kind, s["shard"])
            specs.append(s)
    return specs


def around(rnd, x):
    """x, or a value one ulp away from it, or something random."""
    k = rnd.random()
    if k < 0.3:
        return x
    if k < 0.45:
        return math.nextafter(x, math.inf)
    if k < 0.6:
        return math.nextafter(x, -math.inf)
    return rnd.choice([0.0, 1.0, rnd.random(), rnd.randint(0, 16) / 16])


def dy(rnd, lo, hi, den=(1, 2, 4, 8)):
    d = rnd.choice(den)
    return rnd.randint(int(lo * d), int(hi * d)) / d


# ------------------------------------------------------------------ linear / relative supply
def exact(value, how):
    """[numerator, denominator] as a Fraction or Decimal: exact rationals a site may configure and a pool may report."""
    if not isinstance(value, list):
        return value
    import decimal
    import fractions

    if how == "fraction":
        return fractions.Fraction(value[0], value[1])
    return decimal.Decimal(value[0]) / decimal.Decimal(value[1])


def gen_exact(rnd, spec):
    """Thresholds that have no exact binary representation, and pools reporting exactly the threshold."""
    den = rnd.choice([10, 10, 5, 20, 100])
    low = rnd.randint(0, den)
    high = low if rnd.random() < 0.3 else rnd.randint(low, den)
    params = {"low_utilisation": [low, den], "high_allocation": [high, den]}
    if spec["kind"] == "linear":
        params["rate"] = rnd.choice([1, 2, 10])
    else:
        params["low_scale"], params["high_scale"] = rnd.choice([0.5, 0.75, 0.0]), rnd.choice([1.5, 2.0, 10])
    steps = []
    for _ in range(rnd.randint(1, 30)):
        near = lambda x: rnd.choice([[x, den], [x, den], [x * 1000 + 1, den * 1000], [x * 1000 - 1, den * 1000], [rnd.randint(0, den), den]])  # noqa: E731
        steps.append({"u": near(low), "a": near(high), "supply": rnd.choice([0, 1, 10, rnd.randint(0, 500)]),
                      "demand": None if rnd.random() < 0.6 else rnd.randint(0, 1000), "interval": rnd.choice([1, 2, 5, 60])})
    return {"kind": spec["kind"], "params": params, "steps": steps, "exact": rnd.choice(["fraction", "decimal"])}


def gen_linrel(rnd, spec):
    if rnd.random() < 0.12:
        return gen_exact(rnd, spec)
    low = rnd.randint(0, 16) / 16
    high = low if rnd.random() < 0.3 else rnd.randint(int(low * 16), 16) / 16
    params = {"low_utilisation": low, "high_allocation": high}
    if spec["kind"] == "linear":
        params["rate"] = rnd.choice([1, 2, 0.5, 0.25, 10, 3.5, dy(rnd, 0.125, 20)])
        if params["rate"] <= 0:
            params["rate"] = 1
        if rnd.random() < 0.5:
            params["interval"] = rnd.choice([1, 5, 0.5, 60, dy(rnd, 0.125, 100)]) or 1
    else:
        params["low_scale"] = rnd.choice([0.9, 0.5, 0.0, 0.75, 0.999, -1.0, dy(rnd, 0, 0.99, (16, 64))])
        if params["low_scale"] >= 1:
            params["low_scale"] = 0.5
        params["high_scale"] = rnd.choice([1.1, 2.0, 1.5, 1.001, 10, 1 + dy(rnd, 0.01, 3, (16, 64))])
        if params["high_scale"] <= 1:
            params["high_scale"] = 1.5
    steps = []
    for _ in range(rnd.randint(1, 50)):
        steps.append(
            {
                "u": around(rnd, low),
                "a": around(rnd, high),
                "supply": rnd.choice([0, 1, 10, dy(rnd, 0, 1000), rnd.randint(0, 500)]),
                "demand": None if rnd.random() < 0.6 else rnd.choice([0, 5, dy(rnd, -50, 500), rnd.randint(0, 10**6)]),
                "interval": rnd.choice([1, 1, 0.5, 2, 5, 60, dy(rnd, 0.125, 100), 0]),
            }
        )
    return {"kind": spec["kind"], "params": params, "steps": steps}


def exec_linrel(case, result):
    from cobald.controller.linear import LinearController
    from cobald.controller.relative_supply import RelativeSupplyController

    pool = RecPool(demand=10, supply=10)
    p = case["params"]
    if case.get("exact"):
        p = {k: exact(v, case["exact"]) for k, v in p.items()}
        case = dict(case, steps=[dict(st, u=exact(st["u"], case["exact"]), a=exact(st["a"], case["exact"])) for st in case["steps"]])
        result.count("%s_cases_with_exact_rational_thresholds" % case["kind"])
    cls = LinearController if case["kind"] == "linear" else RelativeSupplyController
    try:
        ctrl = cls(pool, **p)
    except Exception as err:
        return [("constructor rejected acceptable parameters %r: %r" % (p, err), None)]
    problems = []
    for idx, st in enumerate(case["steps"]):
        pool.poke(utilisation=st["u"], allocation=st["a"], supply=st["supply"])
        if st["demand"] is not None:
            pool.poke(demand=st["demand"])
        d0 = pool.peek()["demand"]
        writes0 = pool.writes
        try:
            ctrl.regulate(st["interval"])
        except Exception as err:
            problems.append(("step %d: regulate raised %r" % (idx, err), None))
            continue
        d1 = pool.peek()["demand"]
        down = st["u"] < p["low_utilisation"]
        up = st["a"] > p["high_allocation"]
        result.count("%s_steps_%s" % (case["kind"], "both" if down and up else "down" if down else "up" if up else "none"))
        if case["kind"] == "linear":
            amount = st["interval"] * p["rate"]
            allowed = set()
            if down:
                allowed.add(d0 - amount)
            if up:
                allowed.add(d0 + amount)
            if not (down or up):
                allowed.add(d0)
            if d1 not in allowed:
                problems.append((
                    "step %d: utilisation %r (low %r) allocation %r (high %r) interval %r rate %r: demand %r -> %r, allowed %r"
                    % (idx, st["u"], p["low_utilisation"], st["a"], p["high_allocation"], st["interval"], p["rate"], d0, d1, sorted(allowed)), None))
            if abs(d1 - d0) > amount:
                problems.append(("step %d: |change| %r exceeds rate x interval %r" % (idx, abs(d1 - d0), amount), None))
        else:
            allowed = set()
            if down:
                allowed.add(st["supply"] * p["low_scale"])
            if up:
                allowed.add(st["supply"] * p["high_scale"])
            if not (down or up):
                allowed.add(st["supply"])
            if d1 not in allowed or pool.writes != writes0 + 1:
                problems.append((
                    "step %d: utilisation %r (low %r) allocation %r (high %r) supply %r: demand set to %r (%d writes), allowed %r"
                    % (idx, st["u"], p["low_utilisation"], st["a"], p["high_allocation"], st["supply"], d1, pool.writes - writes0, sorted(allowed)), None))
    return problems


# ------------------------------------------------------------------ Stepwise (virtual time)
def gen_thresholds(rnd, n):
    pool = [1, 2, 5, 10, 10.5, 100, 1000, 0.5, 0.125, 3, 7, 50, 64, 1e6]
    th = rnd.sample(pool, n)
    return th


def gen_stepwise(rnd, spec):
    n = rnd.choice([0, 0, 1, 1, 2, 3, 4, 5, 8])
    th = gen_thresholds(rnd, n)
    interval = rnd.choice([1, 0.5, 2, 10, 0.25, 30])
    steps = []
    for _ in range(rnd.randint(1, 40)):
        if th and rnd.random() < 0.7:
            base = rnd.choice(th)
            supply = rnd.choice([base, math.nextafter(base, math.inf), math.nextafter(base, -math.inf), base * 2, base / 2])
        else:
            supply = rnd.choice([0, 0.0, 1e-9, 1e9, rnd.randint(0, 2000), dy(rnd, 0, 200)])
        steps.append({"supply": supply, "ret": [rnd.choice([None, None, "same", rnd.randint(0, 500), dy(rnd, 0, 500), 0, 0.0, False]) for _ in range(n + 1)]})
        if th and rnd.random() < 0.15:
            # a live pool: while the rule runs, resources boot or die and the supply crosses a threshold
            steps[-1]["moves_to"] = rnd.choice([0, rnd.choice(th) * 2, rnd.choice(th) / 2, max(th) + 1])
    return {
        "kind": "stepwise", "thresholds": th, "interval": interval, "steps": steps,
        "build": rnd.choice(["direct", "unbound_call", "unbound_s", "unbound_decorator"]),
        "default_interval": rnd.random() < 0.2,
    }


def exec_stepwise(case, result):
    from cobald.controller.stepwise import Stepwise, UnboundStepwise, stepwise

    pool = RecPool(demand=7, supply=0)
    calls = []  # (rule index, pool, interval, time)
    moved = [0]
    current = {"step": None}
    n = len(case["thresholds"])

    def make_rule(i):
        def rule(p, interval):
            calls.append((i, p, interval, vt.now()))
            if current["step"] and current["step"].get("moves_to") is not None:
                pool.poke(supply=current["step"]["moves_to"])
                moved[0] += 1
            ret = current["step"]["ret"][i] if current["step"] else None
            if ret == "same":
                return pool.peek()["demand"]
            return ret
        rule.__name__ = "rule%d" % i
        return rule

    rules = [make_rule(i) for i in range(n + 1)]  # rule 0 = base
    interval = 1 if case["default_interval"] else case["interval"]
    try:
        if case["build"] == "direct":
            pairs = [(t, rules[i + 1]) for i, t in enumerate(case["thresholds"])]
            kw = {} if case["default_interval"] else {"interval": interval}
            ctrl = Stepwise(pool, rules[0], *pairs, **kw)
        else:
            unbound = stepwise(rules[0]) if case["build"] == "unbound_decorator" else UnboundStepwise(rules[0])
            for i, t in enumerate(case["thresholds"]):
                if i % 2:
                    unbound.add(rules[i + 1], supply=t)
                else:
                    got = unbound.add(supply=t)(rules[i + 1])
                    if got is not rules[i + 1]:
                        return [("add(supply=..) decorator did not return the rule", None)]
            if case["build"] == "unbound_s":
                tmpl = unbound.s() if case["default_interval"] else unbound.s(interval=interval)
                ctrl = tmpl >> pool
            elif case["default_interval"]:
                ctrl = unbound(pool)
            else:
                ctrl = unbound(pool, interval=interval)
    except Exception as err:
        return [("building a Stepwise with distinct positive thresholds %r failed: %r" % (case["thresholds"], err), None)]
    if not isinstance(ctrl, Stepwise) or ctrl.target is not pool:
        return [("built object is %r with target %r" % (ctrl, getattr(ctrl, "target", None)), None)]
    steps = case["steps"]
    script = []

    def setter(k):
        def act():
            current["step"] = steps[k]
            pool.poke(supply=steps[k]["supply"])
            current["writes0"] = pool.writes
            current["d0"] = pool.peek()["demand"]
        return act

    # state for step k is put in place half an interval before step k happens at k*interval
    current["step"] = steps[0]
    pool.poke(supply=steps[0]["supply"])
    observed = []

    def observer(k):
        def act():
            observed.append((k, len(calls), pool.writes, pool.peek()["demand"]))
        return act

    for k in range(len(steps)):
        if k:
            script.append(((k - 0.5) * interval, setter(k)))
        script.append(((k + 0.25) * interval, observer(k)))
    out = vt.run_virtual([ctrl], script, until=(len(steps) - 0.5) * interval)
    problems = []
    if out.errors:
        return [("run() raised %r" % (out.errors[0][1],), None)]
    if out.returned:
        return [("run() returned", None)]
    th_sorted = sorted(case["thresholds"])
    prev_calls, prev_writes = 0, 0
    prev_demand = 7
    for (k, ncalls, nwrites, demand), st in zip(observed, steps):
        new_calls = calls[prev_calls:ncalls]
        eligible = [t for t in th_sorted if t <= st["supply"]]
        want = 0 if not eligible else case["thresholds"].index(eligible[-1]) + 1
        result.count("stepwise_steps_%s" % ("base" if want == 0 else "rule"))
        if len(new_calls) != 1:
            problems.append(("step %d: %d rule calls (%r), expected exactly one" % (k, len(new_calls), [c[0] for c in new_calls]), None))
        else:
            i, p, itv, when = new_calls[0]
            if i != want:
                problems.append(("step %d: supply %r, thresholds %r: rule for threshold %s applied, expected %s"
                                 % (k, st["supply"], case["thresholds"],
                                    "base" if i == 0 else case["thresholds"][i - 1],
                                    "base" if want == 0 else case["thresholds"][want - 1]), None))
            if p is not pool or itv != interval:
                problems.append(("step %d: rule called with (%r, %r), expected (pool, %r)" % (k, p, itv, interval), None))
            ret = st["ret"][i]
            if ret == "same":
                ret = prev_demand
            if ret is None:
                result.count("stepwise_rule_returned_none")
                if nwrites != prev_writes or demand != prev_demand:
                    problems.append(("step %d: rule returned None but demand was written (%r -> %r)" % (k, prev_demand, demand), None))
            else:
                if nwrites != prev_writes + 1 or demand != ret or type(demand) is not type(ret):
                    problems.append(("step %d: rule returned %r, demand is %r after %d writes" % (k, ret, demand, nwrites - prev_writes), None))
        prev_calls, prev_writes, prev_demand = ncalls, nwrites, demand
    if len(observed) != len(steps):
        problems.append(("only %d of %d steps observed" % (len(observed), len(steps)), None))
    result.count("stepwise_steps_during_which_the_supply_moved", moved[0])
    return problems


# ------------------------------------------------------------------ DemandSwitch
def gen_switch(rnd, spec):
    n = rnd.choice([0, 1, 1, 2, 2, 3, 4, 6, 8])
    th = rnd.sample([0, 1, 5, 10, 10.5, 100, 250, 1000, 0.5, 3, 7, 50, -5, 1e6], n)
    steps = []
    for _ in range(rnd.randint(1, 40)):
        if th and rnd.random() < 0.7:
            base = float(rnd.choice(th))
            demand = rnd.choice([base, math.nextafter(base, math.inf), math.nextafter(base, -math.inf), base + 1, base - 1])
            if rnd.random() < 0.3 and demand == int(demand):
                demand = int(demand)
        else:
            demand = rnd.choice([0, -1, 1e9, rnd.randint(-10, 2000), dy(rnd, -10, 200)])
        steps.append({"demand": demand, "interval": rnd.choice([1, 0.5, 5, 60, dy(rnd, 0.125, 100)])})
    return {"kind": "switch", "thresholds": th, "steps": steps,
            "real": rnd.random() < 0.3, "pretarget": [rnd.random() < 0.3 for _ in range(n + 1)],
            "interval": rnd.choice([None, 1, 5, 0.5])}


def exec_switch(case, result):
    from cobald.controller.switch import DemandSwitch
    from cobald.controller.linear import LinearController
    from cobald.interfaces import Controller

    pool = RecPool(demand=0, supply=10, utilisation=0.0, allocation=0.0)
    calls = []

    class Rec(Controller):
        def __init__(self, target, idx):
            super().__init__(target)
            self.idx = idx

        def regulate(self, interval):
            calls.append((self.idx, interval, self.target))

    n = len(case["thresholds"])
    if case["real"]:
        # real delegates: a different rate each, utilisation 0 -> each one steps down by rate*interval
        ctrls = [LinearController(pool if case["pretarget"][i] else None, rate=2 ** i) for i in range(n + 1)]
    else:
        ctrls = [Rec(pool if case["pretarget"][i] else None, i) for i in range(n + 1)]
    args = []
    for i, t in enumerate(case["thresholds"]):
        args += [t, ctrls[i + 1]]
    kw = {} if case["interval"] is None else {"interval": case["interval"]}
    try:
        sw = DemandSwitch(pool, ctrls[0], *args, **kw)
    except Exception as err:
        return [("DemandSwitch rejected distinct numeric thresholds %r: %r" % (case["thresholds"], err), None)]
    problems = []
    if sw.target is not pool or any(c.target is not pool for c in ctrls):
        problems.append(("delegates' targets are not the switch's target: %r" % [c.target is pool for c in ctrls], None))
    th_sorted = sorted(case["thresholds"])
    for k, st in enumerate(case["steps"]):
        pool.poke(demand=st["demand"])
        before = len(calls)
        try:
            sw.regulate(st["interval"])
        except Exception as err:
            problems.append(("step %d: regulate raised %r" % (k, err), None))
            continue
        eligible = [t for t in th_sorted if t <= st["demand"]]
        want = 0 if not eligible else case["thresholds"].index(eligible[-1]) + 1
        result.count("switch_steps_%s" % ("default" if want == 0 else "slave"))
        if case["real"]:
            d1 = pool.peek()["demand"]
            expect = st["demand"] - st["interval"] * 2 ** want
            if d1 != expect:
                problems.append(("step %d: demand %r thresholds %r: demand moved to %r, delegate %d would move it to %r"
                                 % (k, st["demand"], case["thresholds"], d1, want, expect), None))
        else:
            new = calls[before:]
            if len(new) != 1:
                problems.append(("step %d: %d delegate calls, expected exactly one" % (k, len(new)), None))
            else:
                idx, itv, tgt = new[0]
                if idx != want:
                    problems.append(("step %d: demand %r, thresholds %r: delegated to %s, expected %s"
                                     % (k, st["demand"], case["thresholds"],
                                        "default" if idx == 0 else case["thresholds"][idx - 1],
                                        "default" if want == 0 else case["thresholds"][want - 1]), None))
                if itv != st["interval"] or tgt is not pool:
                    problems.append(("step %d: delegate called with interval %r on target %r" % (k, itv, tgt), None))
    return problems


# ------------------------------------------------------------------ constructor validation
def gen_ctor(rnd, spec):
    which = rnd.choice(["linear", "relative", "switch", "stepwise"])
    v = lambda: rnd.choice([0, 0.5, 1, 0.25, 0.75, 1.5, -1, 2, 0.9, 1.1, 1.0, 0.999])  # noqa: E731
    if which == "linear":
        return {"which": which, "p": {k: v() for k in ("low_utilisation", "high_allocation", "rate") if rnd.random() < 0.8}}
    if which == "relative":
        return {"which": which, "p": {k: v() for k in ("low_utilisation", "high_allocation", "low_scale", "high_scale") if rnd.random() < 0.8}}
    if which == "switch":
        return {"which": which, "defect": rnd.choice(["odd", "nonnumeric", "foreign_target", "none", "not_controller", "foreign_default"])}
    return {"which": which, "defect": rnd.choice(["dup", "dup_unbound", "none"])}


def exec_ctor(case, result):
    from cobald.controller.linear import LinearController
    from cobald.controller.relative_supply import RelativeSupplyController
    from cobald.controller.switch import DemandSwitch
    from cobald.controller.stepwise import Stepwise, UnboundStepwise

    pool, other = RecPool(), RecPool()
    which = case["which"]
    if which in ("linear", "relative"):
        p = case["p"]
        ok = p.get("low_utilisation", 0.5) <= p.get("high_allocation", 0.5)
        if which == "linear":
            ok = ok and p.get("rate", 1) > 0
            cls = LinearController
        else:
            ok = ok and p.get("low_scale", 0.9) < 1 and p.get("high_scale", 1.1) > 1
            cls = RelativeSupplyController
        try:
            cls(pool, **p)
            accepted = True
        except Exception:
            accepted = False
    elif which == "switch":
        d = case["defect"]
        a, b, c = LinearController(None), LinearController(None), LinearController(None)
        args = [a, 5, b, 10, c]
        if d == "odd":
            args = [a, 5, b, 10]
        elif d == "nonnumeric":
            args = [a, "5", b]
        elif d == "foreign_target":
            b.target = other
        elif d == "foreign_default":
            a.target = other
        elif d == "not_controller":
            args = [a, 5, object()]
        ok = d == "none"
        try:
            DemandSwitch(pool, *args)
            accepted = True
        except Exception:
            accepted = False
    else:
        d = case["defect"]
        f, g, h = (lambda p, i: None), (lambda p, i: 1), (lambda p, i: 2)
        ok = d == "none"
        try:
            if d == "dup":
                Stepwise(pool, f, (5, g), (5, h))
            elif d == "dup_unbound":
                u = UnboundStepwise(f)
                u.add(g, supply=5)
                u.add(h, supply=5)
            else:
                Stepwise(pool, f, (5, g), (7, h))
            accepted = True
        except Exception:
            accepted = False
    result.count("ctor_%s_%s" % (which, "accepted" if accepted else "rejected"))
    if accepted != ok:
        return [("%s constructor %s %r" % (which, "accepted invalid" if accepted else "rejected valid", case), None)]
    return []


GEN = {"linear": gen_linrel, "relative": gen_linrel, "stepwise": gen_stepwise, "switch": gen_switch, "ctor": gen_ctor}
EXE = {"linear": exec_linrel, "relative": exec_linrel, "stepwise": exec_stepwise, "switch": exec_switch, "ctor": exec_ctor}


def nontrivial(case):
    return True


def run_shard(spec):
    result = core.Result()
    pr = probe.LineProbe("controller/linear.py", "controller/relative_supply.py", "controller/stepwise.py", "controller/switch.py").start()
    try:
        core.drive(PID, spec, GEN[spec["kind"]], EXE[spec["kind"]], result)
    finally:
        pr.stop()
    pr.record(result)
    return result


def finish(total, tier):
    needed = ["linear_steps_down", "linear_steps_up", "linear_steps_none", "linear_steps_both",
              "relative_steps_down", "relative_steps_up", "relative_steps_none",
              "stepwise_steps_base", "stepwise_steps_rule", "stepwise_steps_during_which_the_supply_moved", "stepwise_rule_returned_none",
              "switch_steps_default", "switch_steps_slave",
              "ctor_linear_rejected", "ctor_relative_rejected", "ctor_switch_rejected", "ctor_stepwise_rejected",
              "ctor_linear_accepted", "linear_cases_with_exact_rational_thresholds", "relative_cases_with_exact_rational_thresholds", "ctor_switch_accepted"]
    for name in needed:
        if not total.counters.get(name) and not total.violations:
            total.inconc("monitor never observed: " + name)
