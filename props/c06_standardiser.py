"""C06 - Standardiser keeps the forwarded demand within its limits.

Monitor: a recording pool under a real Standardiser; after every operation of a generated
history an independent reference (exact rational arithmetic) is compared with what reached
the pool and with what is read back.
"""
from fractions import Fraction

from vlib import core, probe
from vlib.doubles import RecPool, num, unnum

PID = "C06"
INF = float("inf")

META = {
    "level": "exploration",
    "engine": "E3 reference model",
    "rule": (
        "seeded random histories (1-30 ops: demand write / read / run of +=1 / supply change / "
        "outside change of the target's demand / fitness change) over Standardisers built from "
        "random accepted parameter combinations (infinite, integer, half and dyadic-fraction "
        "limits; integer and dyadic granularities); numbers are dyadic rationals so float "
        "arithmetic is exact and the rational reference is decisive. kind=fractional: granularities that are not dyadic (0.1, 0.3, 1/3, ...), judged by relational clauses only "
        "(never rounded up, at most a granule below, a multiple of the granularity, read-back is the written or the forwarded value). A case is non-trivial "
        "when at least one limit or a granularity != 1 is configured; distinct by content."
    ),
    "assumptions": [
        "the target pool stores a written demand unchanged (recording double)",
        "values are dyadic rationals |x| <= 2^20 or infinite limits; NaN is not a demand",
        "granularity 1 (the documented 'no limit' default) may or may not floor a fractional demand",
    ],
    "shard_timeout": {"quick": 300, "thorough": 1500},
}


def plan(tier, seed):
    if tier == "thorough":
        return core.shards(seed, 160000, 16) + [
            dict(seed=seed, shard="ctor", n=20000, kind="ctor"), dict(seed=seed, shard="fractional", n=40000, kind="fractional")
        ]
    return core.shards(seed, 6000, 8) + [dict(seed=seed, shard="ctor", n=1500, kind="ctor"), dict(seed=seed, shard="fractional", n=2000, kind="fractional")]


# ----------------------------------------------------------------------------- generators
def dyadic(rnd, lo=-64, hi=64, denoms=(1, 1, 1, 2, 2, 4, 8)):
    d = rnd.choice(denoms)
    k = rnd.randint(lo * d, hi * d)
    return k // d if k % d == 0 and rnd.random() < 0.8 else k / d


def gen_value(rnd, want_int=None):
    kind = rnd.random()
    if want_int is None:
        want_int = rnd.random() < 0.5
    if want_int:
        if kind < 0.1:
            return rnd.choice([0, 1, -1, 2**20, -(2**20)])
        return rnd.randint(-80, 120)
    if kind < 0.1:
        return float(rnd.choice([0, 1, -1, 2**20]))
    v = dyadic(rnd, -80, 120, denoms=(1, 2, 4, 8, 16))
    return float(v)


def gen_limit(rnd, positive=False):
    kind = rnd.random()
    if kind < 0.3:
        return INF
    if kind < 0.55:
        v = rnd.randint(1, 40) if positive else rnd.randint(-40, 100)
    elif kind < 0.8:
        v = (rnd.randint(0, 40) if positive else rnd.randint(-40, 100)) + 0.5
    else:
        v = dyadic(rnd, 0 if positive else -40, 60, denoms=(2, 4, 8, 16))
        if positive and v <= 0:
            v = 0.25
    if rnd.random() < 0.3:
        v = float(v)
    return v


def gen_params(rnd):
    p = {}
    if rnd.random() < 0.55:
        p["minimum"] = -gen_limit(rnd) if rnd.random() < 0.3 else gen_limit(rnd)
        if p["minimum"] == INF and rnd.random() < 0.9:
            p["minimum"] = -INF
    if rnd.random() < 0.55:
        p["maximum"] = gen_limit(rnd)
    lo, hi = p.get("minimum", -INF), p.get("maximum", INF)
    if lo > hi:
        p["minimum"], p["maximum"] = hi, lo
    if rnd.random() < 0.6:
        p["granularity"] = rnd.choice(
            [1, 1, 2, 3, 5, 7, 10, 16, 0.5, 0.25, 1.5, 2.5, 0.125, 1.0, 4.0]
        )
    if rnd.random() < 0.45:
        p["surplus"] = gen_limit(rnd, positive=True)
    if rnd.random() < 0.45:
        p["backlog"] = gen_limit(rnd, positive=True)
    return p


def gen_case(rnd, spec):
    params = gen_params(rnd)
    int_world = rnd.random() < 0.5  # a controller working in integers, as LinearController does
    init = {
        "demand": gen_value(rnd, int_world),
        "supply": gen_value(rnd, rnd.random() < 0.6),
    }
    ops = []
    for _ in range(rnd.randint(1, 30)):
        k = rnd.random()
        if k < 0.45:
            ops.append(["write", gen_value(rnd, int_world if rnd.random() < 0.85 else None)])
        elif k < 0.6:
            ops.append(["read"])
        elif k < 0.72:
            ops.append(["incr", rnd.randint(1, 12)])
        elif k < 0.84:
            # a pool may also report that it can provide without limit (or owes without limit)
            ops.append(["supply", rnd.choice(["inf", "inf", "-inf"]) if rnd.random() < 0.06 else gen_value(rnd, rnd.random() < 0.6)])
        elif k < 0.94:
            ops.append(["outside", gen_value(rnd, int_world)])
        else:
            ops.append(["fitness", rnd.randint(0, 8) / 8, rnd.randint(0, 8) / 8])
    return {
        "params": {k: num(v) for k, v in params.items()},
        "init": init,
        "ops": ops,
    }


# ----------------------------------------------------------------------------- reference
def F(x):
    """Exact value of a number (infinities stay floats, which compare fine with Fractions)."""
    if isinstance(x, float) and x in (INF, -INF):
        return x
    return Fraction(x)


def add(a, b):
    if a in (INF, -INF):
        return a
    if b in (INF, -INF):
        return b
    return a + b


def clamp(lo, v, hi):
    return lo if v < lo else hi if v > hi else v


class Ref:
    def __init__(self, params):
        self.min = F(params.get("minimum", -INF))
        self.max = F(params.get("maximum", INF))
        self.g = F(params.get("granularity", 1))
        self.surplus = F(params.get("surplus", INF))
        self.backlog = F(params.get("backlog", INF))

    def limited(self, v, supply):
        v, s = F(v), F(supply)
        lo = -INF if self.backlog == INF else add(s, -self.backlog)  # no backlog limit: no lower edge, whatever the supply
        hi = INF if self.surplus == INF else add(s, self.surplus)
        return clamp(self.min, clamp(lo, v, hi), self.max)

    def floored(self, v):
        v = F(v)
        return (v // self.g) * self.g

    def forwarded(self, v, supply):
        """Set of acceptable demands at the target after writing v."""
        full = self.limited(self.floored(v), supply)
        if self.g == 1:
            return {full, self.limited(v, supply)}
        return {full}


def same(observed, reference):
    """Numeric equality between an observed int/float and an exact reference."""
    if reference in (INF, -INF) or observed in (INF, -INF):
        return observed == reference
    return Fraction(observed) == reference


# ----------------------------------------------------------------------------- execution
def execute(case, result):
    # the decorator under each of the names it is published under (configurations and documentation use all three)
    import importlib

    name = ["Standardiser", "Limiter", "Coarser", "Standardiser"][len(repr(case["params"])) % 4]
    Standardiser = getattr(importlib.import_module("cobald.decorator." + name.lower()), name)
    result.count("cases_built_as_%s" % name)

    params = {k: unnum(v) for k, v in case["params"].items()}
    pool = RecPool(demand=case["init"]["demand"], supply=case["init"]["supply"])
    try:
        std = Standardiser(pool, **params)
    except Exception as err:  # generator only produces accepted combinations
        return [("constructor rejected an acceptable combination: %r" % err, None)]
    ref = Ref(params)
    g = ref.g
    problems = []

    def bad(msg):
        problems.append(("op %d %s: %s" % (idx, op, msg), None))

    def granule_clause(r):
        t = pool.peek()["demand"]
        if r in (INF, -INF) or t in (INF, -INF):
            return
        if r != r or t != t:
            bad("read-back %r / target demand %r is not a number although only finite demands were written" % (r, t))
            return
        if not abs(Fraction(r) - Fraction(t)) < g:
            bad("read-back %r is a granule or more away from target demand %r" % (r, t))
        result.count("reads_checked")

    def write(v):
        s = pool.peek()["supply"]
        before = pool.writes
        try:
            std.demand = v
        except Exception as err:
            bad("writing %r raised %r" % (v, err))
            return False
        result.count("writes_checked")
        if pool.writes != before + 1:
            bad("one write caused %d target writes" % (pool.writes - before))
        t = pool.peek()["demand"]
        accept = ref.forwarded(v, s)
        if not any(same(t, a) for a in accept):
            lim = ref.limited(ref.floored(v), s)
            clause = "reference"
            if isinstance(t, float) and t != t:
                clause = "not a number"
            elif not (ref.min <= F(t) <= ref.max):
                clause = "outside [minimum, maximum]"
            elif lim != ref.floored(v):
                clause = "limit priority / supply window"
            else:
                clause = "granularity floor"
            bad(
                "target received %r, expected %s (supply %r) [%s]"
                % (t, sorted(map(str, accept)), s, clause)
            )
        else:
            lim_active = ref.limited(v, s) != F(v)
            result.count("writes_limited" if lim_active else "writes_unlimited")
            if ref.floored(v) != F(v) and g != 1:
                result.count("writes_floored")
        try:
            r = std.demand
        except Exception as err:
            bad("reading back raised %r" % (err,))
            return False
        want = ref.limited(v, s)
        if not same(r, want):
            bad("read-back %r after writing %r, expected limited value %s" % (r, v, want))
        granule_clause(r)
        return True

    for idx, op in enumerate(case["ops"]):
        kind = op[0]
        if kind == "write":
            write(op[1])
        elif kind == "read":
            try:
                r = std.demand
            except Exception as err:
                bad("read raised %r" % (err,))
                continue
            granule_clause(r)
        elif kind == "incr":
            # n increments of 1 == one increment of n, where no limit interferes
            n = op[1]
            s = pool.peek()["supply"]
            twin_pool = RecPool(**pool.peek())
            twin = Standardiser(twin_pool, **params)
            try:
                start = std.demand
                twin._demand = std._demand  # same remembered demand
                start_twin = twin.demand
            except Exception as err:
                bad("read raised %r" % (err,))
                continue
            if start != start_twin:
                continue
            if start in (INF, -INF) or start != start:
                # incrementing an infinite read-back would write an infinite demand: only finite demands are written
                result.count("increments_skipped_on_an_infinite_read_back")
                continue
            free = all(ref.limited(add(F(start), k), s) == add(F(start), k) for k in range(n + 1))
            try:
                for _ in range(n):
                    std.demand += 1
                twin.demand += n
            except Exception as err:
                bad("increment raised %r" % (err,))
                continue
            if free and start not in (INF, -INF):
                result.count("increment_runs_checked")
                a, b = pool.peek()["demand"], twin_pool.peek()["demand"]
                if a != b:
                    bad("%d increments of 1 -> target %r, one increment of %d -> %r" % (n, a, n, b))
                want = ref.limited(ref.floored(Fraction(start) + n), s)
                if not any(same(a, w) for w in ref.forwarded(Fraction(start) + n, s)):
                    bad("after %d increments from %r target has %r, expected %s" % (n, start, a, want))
                if std.demand != twin.demand:
                    bad("read-back differs: %r vs %r" % (std.demand, twin.demand))
        elif kind == "supply":
            pool.poke(supply=float(op[1]) if isinstance(op[1], str) else op[1])
            if isinstance(op[1], str):
                result.count("states_with_infinite_supply")
        elif kind == "outside":
            pool.poke(demand=op[1])
        elif kind == "fitness":
            pool.poke(utilisation=op[1], allocation=op[2])
        # pass-through after every operation
        state = pool.peek()
        for attr in ("supply", "utilisation", "allocation"):
            try:
                got = getattr(std, attr)
            except Exception as err:
                bad("%s raised %r" % (attr, err))
                continue
            if got != state[attr] or type(got) is not type(state[attr]):
                bad("%s through the Standardiser is %r, pool has %r" % (attr, got, state[attr]))
        result.count("passthrough_checked", 3)
    return problems


def gen_fractional(rnd, spec):
    """Granularities that are not dyadic (0.1, 0.3, ...): float flooring is inexact, so only relational clauses are judged."""
    g = rnd.choice([0.1, 0.3, 0.7, 0.001, 0.025, 3.3, 1e-6, 123.456, 1 / 3])
    writes = []
    for _ in range(rnd.randint(1, 12)):
        k = rnd.random()
        if k < 0.4:
            writes.append(round(rnd.uniform(-50, 500), rnd.choice([0, 1, 2, 5])))
        elif k < 0.7:
            writes.append(rnd.randint(-20, 1000))
        else:
            writes.append(rnd.randint(-50, 5000) * g)  # (almost) exact multiples
    return {"granularity": g, "writes": writes, "supply": rnd.choice([0, 10, 100.5])}


def exec_fractional(case, result):
    import math
    from cobald.decorator.standardiser import Standardiser

    g = case["granularity"]
    pool = RecPool(demand=0, supply=case["supply"])
    std = Standardiser(pool, granularity=g)
    problems = []
    for idx, v in enumerate(case["writes"]):
        try:
            std.demand = v
            back = std.demand
        except Exception as err:
            problems.append(("write %d of %r with granularity %r raised %r" % (idx, v, g, err), None))
            continue
        t = pool.peek()["demand"]
        slack = 8 * math.ulp(max(abs(v), abs(t), g))
        result.count("fractional_granularity_writes")
        if t > v + slack:
            problems.append(("granularity %r: %r was rounded UP to %r" % (g, v, t), None))
        elif v - t > g + slack:
            # (a value that is a multiple of g in the reals may lie a hair below the float multiple and lose a whole
            # granule to float floor division - a property of binary floats, not judged)
            problems.append(("granularity %r: %r was forwarded as %r, more than a granule below" % (g, v, t), None))
        elif abs(t / g - round(t / g)) > 1e-6 * max(1.0, abs(t / g)):
            problems.append(("granularity %r: forwarded %r is not a multiple of the granularity" % (g, t), None))
        if back != v and back != t:
            problems.append(("granularity %r: read-back %r after writing %r (target has %r) although no limit is set" % (g, back, v, t), None))
    return problems


def gen_ctor(rnd, spec):
    vals = [-INF, INF, 0, 1, -1, 0.5, -0.5, 2, 10, 10.5, -3, 0.0, 1e-9, -1e-9, 7]
    return {k: num(rnd.choice(vals)) for k in ("minimum", "maximum", "granularity", "surplus", "backlog") if rnd.random() < 0.7}


def execute_ctor(case, result):
    from cobald.decorator.standardiser import Standardiser

    p = {k: unnum(v) for k, v in case.items()}
    ok = (
        p.get("minimum", -INF) <= p.get("maximum", INF)
        and p.get("surplus", INF) > 0
        and p.get("backlog", INF) > 0
        and p.get("granularity", 1) > 0
    )
    try:
        Standardiser(RecPool(), **p)
    except ValueError:
        result.count("ctor_rejected")
        return [("acceptable parameters rejected", None)] if ok else []
    except Exception as err:
        return [("constructor raised %r instead of ValueError" % (err,), None)]
    result.count("ctor_accepted")
    return [] if ok else [("unacceptable parameters accepted", None)]


def nontrivial(case):
    p = case.get("params", case)
    return any(k in p for k in ("minimum", "maximum", "surplus", "backlog")) or p.get("granularity", 1) != 1


def run_shard(spec):
    result = core.Result()
    pr = probe.LineProbe("decorator/standardiser.py").start()
    try:
        if spec.get("kind") == "ctor":
            core.drive(PID, spec, gen_ctor, execute_ctor, result)
        elif spec.get("kind") == "fractional":
            core.drive(PID, spec, gen_fractional, exec_fractional, result)
        else:
            core.drive(PID, spec, gen_case, execute, result, nontrivial=nontrivial)
    finally:
        pr.stop()
    pr.record(result)
    return result


def finish(total, tier):
    for needed in ("writes_limited", "states_with_infinite_supply", "cases_built_as_Limiter", "cases_built_as_Coarser", "writes_unlimited", "writes_floored", "increment_runs_checked", "ctor_rejected", "ctor_accepted", "fractional_granularity_writes"):
        if not total.counters.get(needed) and not total.violations:
            total.inconc("monitor never observed: " + needed)
