"""C02 - termination cancels every coroutine payload and finishes its cleanup first.

Monitor (E1): every coroutine payload logs start / cancelled (it caught its framework's
cancellation exception) / cleanup-done; the main thread logs `accept-ended` right after the
blocking call returned or raised and keeps listening for stragglers.  All ordering verdicts
use the log's global sequence numbers.
"""
from vlib import core
from vlib.rt import common

PID = "C02"

META = {
    "level": "exploration",
    "engine": "E1 runtime scenario engine",
    "rule": (
        "seeded random scenarios: termination trigger in {Exception failure / orphaned return in each flavour, "
        "BaseException failure, SIGINT to the main thread, KeyboardInterrupt raised in an asyncio or thread "
        "payload, shutdown() from an outside thread or a thread payload, MetaRunner.stop()} x populations of "
        "0-6 coroutine payloads per flavour (sleeping, spinning on zero-length sleeps, blocked, waiting on an awaitable nobody else references - with a forced garbage collection before the trigger -, adopted a few "
        "statements before the trigger, adopted from other payloads, adopted by a payload's own cleanup while the runtime terminates (hand-over chains 1-3 deep), adopted half way through a 0.2-0.5 s shielded trio cleanup, adopted one per loop turn by dispatcher payloads that are still busy at the trigger, services; cleanup none / synchronous 0-30 ms / stubborn (absorbs 1-3 cancellations before giving up) / for asyncio a finally block awaiting 1-5 zero-length steps or 2-3 pauses of 10 ms / "
        "trio-shielded 0-300 ms) x 0-3 blocked thread payloads x trigger time jitter x line-level delay injection. "
        "Non-trivial = at least one coroutine payload was running at the trigger; distinct by scenario shape."
    ),
    "assumptions": [
        "payloads that absorb cancellations (they need 2-4 of them) are registered before the termination begins: one that is adopted while the runtime already terminates (by another payload's cleanup, after the asyncio runner has finished closing) is cancelled only once, by asyncio.run's own finalisation, which then waits for it forever - observed on the unchanged tree (replay of seed 1, shard 11), asyncio's documented behaviour for tasks that swallow CancelledError, not claimed as a finding",
        "asyncio cleanup means synchronous finally code, or a finally block awaiting a few zero-length steps (the runner re-cancels asyncio tasks every 0.1 s, so longer asynchronous cleanup is legitimately interrupted); an interruption is only reported for terminations that do not abort the event loop (failures, returns, shutdown, stop: after SIGINT, KeyboardInterrupt and SystemExit asyncio.run's own finalisation cancels every task once more - observed), when it came less than 50 ms after the first cancellation and reproduces in 3 of 3 runs; shielded asynchronous cleanup is asserted for trio only, as the statement says",
        "'the run ends' is restated as: accept ends within 8 s of the trigger (normal < 0.6 s)",
        "stragglers are listened for during 0.4 s after the call ended",
    ],
    "shard_timeout": {"quick": 900, "thorough": 3600},
}
TRIGGERS = ["fail_asyncio", "fail_trio", "fail_thread", "return_asyncio", "return_trio", "return_thread", "base_trio", "base_thread_custom",
            "sigint", "kbint_asyncio", "kbint_thread", "shutdown_outside", "shutdown_thread", "stop", "systemexit_asyncio", "systemexit_thread",
            "shutdown_trio_worker", "shutdown_asyncio_worker"]


def plan(tier, seed):
    if tier == "thorough":
        return [dict(seed=seed, shard=i, n=110) for i in range(16)] + [dict(seed=seed, shard="exit", kind="exit", n=3)]
    return [dict(seed=seed, shard=i, n=10) for i in range(16)] + [dict(seed=seed, shard="exit", kind="exit", n=1)]


def coroutine_payload(rnd, pid, flavour):
    program = rnd.choice([[["beat", 0.01, None]], [["beat", 0.03, None]], [["spin", None]], [["block"]], [["sleep", 30]],
                          [["sleep", 0.01], ["beat", 0.005, None]], [["wait_private"]], [["sleep", 0.01], ["wait_private"]]])
    kinds = [{"kind": "none"}, {"kind": "sync", "dur": rnd.choice([0.0, 0.005, 0.03])}]
    if flavour == "trio":
        kinds += [{"kind": "shielded", "dur": rnd.choice([0.0, 0.02, 0.1, 0.3])}] * 2
    kinds += [{"kind": "absorb", "times": rnd.choice([1, 1, 2, 3])}]  # has to be cancelled several times
    return {"id": pid, "flavour": flavour, "program": program, "cleanup": rnd.choice(kinds)}


def gen_cross_case(rnd, spec):
    """Trio payloads that keep calling into the asyncio runner (one of them is usually blocked inside execute when the end
    comes), and an end that does not come from the trio side."""
    trigger = rnd.choice(["fail_asyncio", "fail_thread", "return_asyncio", "return_thread", "stop", "sigint", "kbint_asyncio", "kbint_thread", "shutdown_outside", "shutdown_thread"])
    gen = {"accept_delay": 0.03, "payloads": [], "services": [], "grace": 0.4, "tags": ["cross"]}
    script = [["wait_running", 8]]
    for i, flavour in enumerate(["asyncio", "trio", rnd.choice(common.COROUTINE)]):
        p = coroutine_payload(rnd, "c%d" % i, flavour)
        if p["cleanup"]["kind"] == "absorb":
            p["cleanup"] = {"kind": "sync", "dur": 0.01}
        p["when"] = "queued"
        gen["payloads"].append(p)
    for i in range(rnd.randint(1, 3)):
        gen["payloads"].append({"id": "xs%d" % i, "flavour": "asyncio", "executed": True, "cleanup": {"kind": "none"},
                                "program": [["sleep", rnd.choice([0.01, 0.02, 0.04])], ["return", "none"]]})
        # adopted once the runtime runs (queued, it would deadlock the start-up: the recorded finding C10/startup-unqueue-deadlock)
        gen["payloads"].append({"id": "cross%d" % i, "flavour": "trio", "cleanup": {"kind": "none"},
                                "program": [["sleep", 0.02], ["exec_loop", "xs%d" % i, 400, rnd.choice([0.0, 0.005])]]})
        script.append(["adopt", "cross%d" % i])
    if trigger not in ("sigint", "kbint_asyncio", "kbint_thread") and rnd.random() < 0.6:
        # a trio payload whose shielded cleanup calls into the asyncio runner half way through (with a coroutine of several steps)
        gen["payloads"].append({"id": "xclean", "flavour": "asyncio", "executed": True, "cleanup": {"kind": "none"},
                                "program": [["sleep", 0.05], ["sleep", 0.1], ["sleep", 0.05], ["return", "none"]]})
        gen["payloads"].append({"id": "cleaner", "flavour": "trio", "when": "queued", "program": [["block"]],
                                "cleanup": {"kind": "shielded", "dur": rnd.choice([0.1, 0.2]), "execute_mid": "xclean"}})
    script.append(["sleep", rnd.choice([0.1, 0.2, 0.3])])
    fl = {"asyncio": "asyncio", "trio": "trio", "thread": "threading"}
    if trigger.startswith(("fail_", "return_", "kbint_")):
        kind, where = trigger.split("_")
        op = {"fail": ["raise", "LookupError"], "return": ["return", "str"], "kbint": ["raise", "KeyboardInterrupt"]}[kind]
        gen["payloads"].append({"id": "trigger", "flavour": fl[where], "program": [["sleep", 0.01], op], "cleanup": {"kind": "none"}})
        script.append(["adopt", "trigger"])
    elif trigger == "sigint":
        script.append(["sigint"])
    elif trigger == "shutdown_outside":
        script.append(["shutdown"])
    elif trigger == "shutdown_thread":
        gen["payloads"].append({"id": "trigger", "flavour": "threading", "program": [["shutdown"]], "cleanup": {"kind": "none"}})
        script.append(["adopt", "trigger"])
    else:
        script.append(["stop"])
    script.append(["expect_end", 8.0])
    gen["script"] = script
    return {"watchdog": 30, "inject": common.inject_conf(rnd, 0.5), "generations": [gen], "meta": {"trigger": trigger, "meta_runner": False, "cross": True}}


def gen_case(rnd, spec):
    if rnd.random() < 0.08 or spec.get("case_index", 0) % 40 == 7:
        return gen_cross_case(rnd, spec)
    trigger = TRIGGERS[spec.get("case_index", 0) % len(TRIGGERS)] if rnd.random() < 0.6 else rnd.choice(TRIGGERS)
    gen = {"accept_delay": rnd.choice([0.02, 0.05, 0.1]), "payloads": [], "services": [], "grace": 0.4}
    meta_mode = rnd.random() < 0.2  # MetaRunner.run() / stop() driven directly (no service loop, no services)
    if meta_mode:
        gen["mode"] = "meta"
    script = [["wait_running", 8]]
    late = []
    n = 0
    for flavour in common.COROUTINE:
        for _ in range(rnd.randint(0, 6) if rnd.random() < 0.8 else 0):
            p = coroutine_payload(rnd, "c%d" % n, flavour)
            n += 1
            how = rnd.choice(["queued", "running", "running", "late", "carried", "service"])
            if meta_mode and how == "service":
                how = "running"
            if how == "carried" and p["cleanup"]["kind"] == "absorb":
                how = "running"  # see the assumption on stubborn payloads: registered before the termination begins
            if how == "queued":
                p["when"] = "queued"
                gen["payloads"].append(p)
            elif how == "running":
                gen["payloads"].append(p)
                script.append(["adopt", p["id"]])
            elif how == "late":
                gen["payloads"].append(p)
                late.append(["adopt", p["id"]])
            elif how == "carried":
                gen["payloads"].append(p)
                via = rnd.choice(common.FLAVOURS)
                carrier = {"id": "carrier-%s" % p["id"], "flavour": via, "when": "queued",
                           "program": [["sleep", rnd.choice([0.0, 0.02, 0.1])], ["adopt", p["id"]]] + ([["block"]] if via == "threading" else [["beat", 0.02, None]]),
                           "cleanup": {"kind": "none"}}
                gen["payloads"].append(carrier)
            else:
                gen["services"].append({"id": p["id"], "flavour": flavour, "program": p["program"], "cleanup": p["cleanup"],
                                        "create": rnd.choice(["before", "before", "after"])})
                if gen["services"][-1]["create"] == "after":
                    script.append(["service", p["id"]])
    # asyncio payloads whose finally block awaits a few zero-length steps: far shorter than the 0.1 s after which the
    # runner cancels again, so it completes - provided no other asyncio payload blocks the loop meanwhile
    async_mode = rnd.random() < 0.2
    if async_mode:
        if trigger in ("sigint", "kbint_asyncio", "kbint_thread", "systemexit_asyncio", "systemexit_thread") or rnd.random() < 0.4:
            # only terminations that do not abort the event loop are judged here: prefer those, above all the requested stops
            trigger = rnd.choice(["stop", "shutdown_outside", "shutdown_thread", "shutdown_outside", "fail_asyncio", "fail_trio", "fail_thread", "return_trio"])
        if not any(p["flavour"] == "asyncio" for p in gen["payloads"] + gen["services"]):
            extra = coroutine_payload(rnd, "c%d" % n, "asyncio")
            gen["payloads"].append(extra)
            script.append(["adopt", extra["id"]])
        for p in gen["payloads"] + gen["services"]:
            if p["flavour"] == "asyncio" and not p["id"].startswith("carrier"):
                p["cleanup"] = rnd.choice([{"kind": "async", "steps": rnd.randint(1, 5)}, {"kind": "async", "steps": 1}, {"kind": "none"},
                                           # or a few short real pauses: 30 ms in all, a third of the runner's 0.1 s between two rounds
                                           {"kind": "async", "steps": 3, "pause": 0.01}, {"kind": "async", "steps": 2, "pause": 0.01}])
    # hand-over chains: a payload that adopts a successor from its cleanup, i.e. while terminating
    for c in range(0 if async_mode else rnd.choice([0, 0, 1, 1, 2])):
        depth = rnd.randint(1, 3)
        ids = ["h%d_%d" % (c, d) for d in range(depth + 1)]
        for d, hid in enumerate(ids):
            flavour = rnd.choice(["asyncio", "asyncio", "trio"])
            p = coroutine_payload(rnd, hid, flavour)
            p["program"] = rnd.choice([[["beat", 0.01, None]], [["block"]], [["sleep", 30]]])
            if p["cleanup"]["kind"] == "absorb" and d > 0:
                p["cleanup"] = {"kind": "none"}
            if d < depth:
                p["handover"] = ids[d + 1]
            if d == 0:
                p["when"] = "queued"
            gen["payloads"].append(p)
    # a trio payload whose (long) shielded cleanup hands work over half way through: the runtime is deep in its termination then
    interrupted = trigger in ("sigint", "kbint_asyncio", "kbint_thread")  # there the runner tasks are cancelled, not awaited
    for m in range(0 if async_mode else rnd.choice([1, 1, 2] if interrupted else [0, 0, 0, 1, 2])):
        succ = {"id": "late%d" % m, "flavour": rnd.choice(common.FLAVOURS), "cleanup": {"kind": "none"},
                "program": rnd.choice([[["sleep", 0.01]], [["beat", 0.01, None]]]) if True else None}
        if succ["flavour"] == "threading":
            succ["program"] = [["sleep", 0.01]]
        gen["payloads"].append(succ)
        gen["payloads"].append({"id": "mid%d" % m, "flavour": "trio", "when": "queued", "program": [["block"]],
                                "cleanup": {"kind": "shielded", "dur": rnd.choice([0.2, 0.3, 0.5]), "handover_mid": succ["id"]}})
    # a guardian: a trio payload whose shielded cleanup requests an orderly shutdown of the runtime (from a helper thread) and waits for it
    if not async_mode and not meta_mode and rnd.random() < 0.12:
        gen["payloads"].append({"id": "guardian", "flavour": "trio", "when": "queued", "program": [["block"]],
                                "cleanup": {"kind": "shielded", "dur": rnd.choice([0.05, 0.1]), "shutdown_mid": True}})
        gen.setdefault("tags", []).append("guardian")
    # keep-alive payloads: whenever one ends (here: is cancelled) it adopts a fresh copy of itself
    if not async_mode and rnd.random() < 0.15:
        for fl in rnd.sample(list(common.COROUTINE), rnd.randint(1, 2)):
            gen["payloads"].append({"id": "keeper_" + fl, "flavour": fl, "when": "queued", "program": [["block"]], "cleanup": {"kind": "none"}, "renew": 0})
        gen.setdefault("tags", []).append("keepers")
    # dispatchers: payloads that adopt one short-lived worker per loop turn, still busy when the trigger fires
    for d in range(0 if async_mode else rnd.choice([0, 0, 1, 3])):
        fl = rnd.choice(["asyncio", "asyncio", "trio"])
        gen["payloads"].append({"id": "disp%d" % d, "flavour": fl, "when": "queued", "cleanup": {"kind": "none"},
                                "program": [["dispatch", rnd.choice(["asyncio", "asyncio", "trio"]), 3000], ["beat", 0.02, None]]})
    for i in range(rnd.choice([0, 0, 1, 2, 3])):
        gen["payloads"].append({"id": "blk%d" % i, "flavour": "threading", "when": rnd.choice(["queued", "running"]),
                                "program": [["block"]], "cleanup": {"kind": "none"}})
        if gen["payloads"][-1]["when"] == "running":
            script.append(["adopt", "blk%d" % i])
    script.append(["sleep", rnd.choice([0.02, 0.08, 0.15, 0.3])])
    if rnd.random() < 0.6:
        script.append(["gc"])  # payloads waiting on something only they reference must survive a collection
    script += late  # adopted a few statements before the trigger
    fl = {"asyncio": "asyncio", "trio": "trio", "thread": "threading"}
    if trigger.startswith(("fail_", "return_", "base_", "kbint_", "systemexit_")):
        kind, where = trigger.split("_")[0], trigger.split("_")[1]
        op = {"fail": ["raise", rnd.choice(["LookupError", "ValueError", "CustomWithArgs"])], "return": ["return", rnd.choice(["zero", "str", "emptylist"])],
              "base": ["raise", "CustomBase"], "kbint": ["raise", "KeyboardInterrupt"], "systemexit": ["raise", "SystemExit"]}[kind]
        gen["payloads"].append({"id": "trigger", "flavour": fl[where], "program": [["sleep", rnd.choice([0.0, 0.01])], op], "cleanup": {"kind": "none"}})
        script.append(["adopt", "trigger"])
    elif trigger == "sigint":
        script.append(["sigint"])
    elif trigger == "shutdown_outside":
        script.append(["shutdown"])
    elif trigger == "shutdown_thread":
        gen["payloads"].append({"id": "trigger", "flavour": "threading", "program": [["shutdown"]], "cleanup": {"kind": "none"}})
        script.append(["adopt", "trigger"])
    elif trigger == "stop":
        script.append(["stop"])
    elif trigger in ("shutdown_trio_worker", "shutdown_asyncio_worker"):
        # the stop is requested from inside a coroutine payload, through a worker thread of its own framework, and awaited
        gen["payloads"].append({"id": "trigger", "flavour": trigger.split("_")[1], "program": [["shutdown_in_worker"]], "cleanup": {"kind": "none"}})
        script.append(["adopt", "trigger"])
    script.append(["expect_end", 8.0])
    gen["script"] = script
    inject = common.inject_conf(rnd, 0.7)
    if async_mode and inject:
        inject["p_sleep"] = 0.0  # yields only: injected sleeps in the loop thread would eat the 0.1 s the cleanup has
    return {"watchdog": 30, "inject": inject, "generations": [gen], "meta": {"trigger": trigger, "meta_runner": meta_mode}}


def judge(case, run, result, suspects_out=None):
    trouble = common.harness_trouble(run)
    if trouble:
        result.inconc(trouble)
        return []
    trigger = case["meta"]["trigger"]
    ended = run.first("accept-ended", gen=0)
    gen = case["generations"][0]
    specs = {p["id"]: p for p in gen["payloads"]}
    specs.update({"svc:%s" % s["id"]: s for s in gen["services"]})
    problems = []
    if run.of("accept-still-running", gen=0) or ended is None:
        if not run.first("running-observed"):
            result.inconc("runtime never reported running: %s" % run.stacks[-800:])
            return []
        blocked = [e["pid"] for e in run.of("block-start")]
        problems.append(("trigger %s: accept did not end within 8 s (blocked thread payloads: %s)" % (trigger, blocked), None))
        return problems
    result.count("trigger_" + trigger)
    if case["meta"].get("meta_runner"):
        result.count("scenarios_driving_metarunner_directly")
    end_seq = ended["seq"]
    mech = None
    checked = 0
    suspects = []
    for pid, p in specs.items():
        if p["flavour"] not in common.COROUTINE or pid == "trigger" or pid.startswith("carrier"):
            continue
        start = run.first("start", gen=0, pid=pid)
        own = [e for e in run.events if e.get("pid") == pid and e.get("gen") == 0 and e["kind"] not in ("call", "return", "raised")]
        if start is None:
            if own:
                problems.append(("payload %s never started but logged %r" % (pid, [e["kind"] for e in own]), None))
            continue
        if any(e["kind"] in ("end", "fail") for e in own):
            continue
        if pid.startswith("h") and not pid.endswith("_0"):
            result.count("payloads_adopted_during_termination_started")
        checked += 1
        cancelled = [e for e in own if e["kind"] == "cancelled"]
        done = [e for e in own if e["kind"] == "cleanup-done"]
        late = [e for e in own if e["seq"] > end_seq]
        what = None
        if not cancelled:
            what = "was never cancelled through its framework's cancellation exception"
        elif cancelled[0]["seq"] > end_seq:
            what = "was cancelled only after accept had ended"
        elif p.get("cleanup", {}).get("kind") == "async" and not done:
            cut = [e for e in own if e["kind"] == "cleanup-interrupted"]
            if trigger in ("sigint", "kbint_asyncio", "kbint_thread", "systemexit_asyncio", "systemexit_thread"):
                # these abort the event loop; asyncio.run's own finalisation then cancels every task once more
                result.count("async_cleanups_not_judged_loop_aborted")
            elif cut and cut[0]["after"] < 0.05:
                # cancelled again long before the 0.1 s the runner waits between two rounds: suspicious, but a stalled
                # loop thread could do that on a starved machine, so the scenario is repeated before anything is claimed
                suspects.append((pid, p["cleanup"]["steps"], cut[0]["after"], cut[0]["step"]))
            else:
                result.count("async_cleanups_not_judged_slow_run")
        elif p.get("cleanup", {}).get("kind", "none") != "none" and (not done or done[0]["seq"] > end_seq):
            what = "had not finished its %s cleanup (%s) when accept ended" % (p["cleanup"]["kind"], {k: v for k, v in p["cleanup"].items() if k != "kind"})
        elif late:
            what = "executed further steps (%s) after accept had ended" % sorted({e["kind"] for e in late})
        if what:
            # what an orphaned trio cleanup hands over lands in an event loop that SystemExit has already aborted
            via_trio, at = False, pid
            for _ in range(10):
                adopted = next((e for e in run.events if e["kind"] == "call" and e.get("op") == "adopt" and e.get("pid") == at and e.get("gen") == 0), None)
                by = adopted and adopted.get("by")
                if by not in specs:
                    break
                if specs[by]["flavour"] == "trio":
                    via_trio = True
                    break
                at = by
            if trigger.startswith("systemexit_") and (p["flavour"] == "trio" or via_trio):
                mech = "C02/systemexit-orphans-trio"
                problems.append(("trigger %s: %s payload %s%s %s" % (trigger, p["flavour"], pid, " (handed over by the cleanup of a trio payload)" if p["flavour"] != "trio" else "", what), mech))
            else:
                problems.append(("trigger %s: %s payload %s (program %s) %s" % (trigger, p["flavour"], pid, p["program"], what), None))
        else:
            result.count("payloads_cancelled_and_cleaned_%s" % p["flavour"])
            if any(op[0] == "wait_private" for op in p["program"]):
                result.count("private_waiters_cancelled_properly")
            if p.get("cleanup", {}).get("kind") == "shielded":
                result.count("shielded_cleanups_finished_first")
                if p["cleanup"].get("handover_mid"):
                    result.count("shielded_cleanups_that_adopt_half_way_finished_first")
            if p.get("cleanup", {}).get("kind") == "async":
                result.count("async_cleanups_finished_first")
            if p.get("cleanup", {}).get("kind") == "absorb":
                result.count("stubborn_payloads_cancelled_until_done_%s" % p["flavour"])
    # workers created on the fly by dispatchers: whoever started must have ended or been cancelled before accept ended
    workers = {}
    for e in run.events:
        if e.get("gen") == 0 and ".w" in str(e.get("pid", "")) and e["kind"] in ("start", "end", "cancelled"):
            workers.setdefault(e["pid"], []).append(e)
    for wid, evs in workers.items():
        kinds = [e["kind"] for e in evs]
        flavour = next((e.get("flavour") for e in evs if e["kind"] == "start"), None)
        wmech = "C02/systemexit-orphans-trio" if trigger.startswith("systemexit_") and flavour == "trio" else None
        if "start" in kinds and not ("end" in kinds or "cancelled" in kinds):
            problems.append(("trigger %s: %s worker %s adopted by a dispatcher was started but neither finished nor cancelled when accept ended"
                             % (trigger, flavour, wid), wmech))
            break
        if any(e["seq"] > end_seq for e in evs):
            problems.append(("trigger %s: %s worker %s adopted by a dispatcher executed steps after accept had ended" % (trigger, flavour, wid), wmech))
            break
    if workers:
        result.count("dispatcher_workers_judged", len(workers))
    result.count("running_coroutine_payloads_judged", checked)
    for e in run.of("raised", gen=0, op="adopt"):
        if e.get("by") in specs and specs[e["by"]].get("flavour") in common.COROUTINE:
            # a cleanup that hands work over does not expect adopt to fail: the error ends the cleanup where it stands
            mech = "C02/systemexit-orphans-trio" if trigger.startswith("systemexit_") else None
            problems.append(("trigger %s: adopt(%s) inside the cleanup of %s payload %s raised %s(%s): the rest of that cleanup is lost"
                             % (trigger, e["pid"], specs[e["by"]]["flavour"], e["by"], e["exc"], e["msg"]), mech))
            break
    if "guardian" in gen.get("tags", []) and run.of("return", gen=0, op="shutdown", by="guardian/cleanup"):
        result.count("terminations_during_which_a_cleanup_requested_a_shutdown")
    if "keepers" in gen.get("tags", []) and [e for e in run.of("cancelled", gen=0) if str(e.get("pid", "")).startswith("keeper_")]:
        result.count("terminations_with_self_renewing_payloads")
    if case["meta"].get("cross") and run.of("call", gen=0, op="execute"):
        result.count("terminations_beside_trio_payloads_calling_into_asyncio")
    for call in [e for e in run.of("call", gen=0, op="execute") if e.get("pid") == "xclean"]:
        out = [e for e in run.events if e.get("op") == "execute" and e.get("pid") == "xclean" and e["kind"] in ("return", "raised")]
        result.count("cleanups_that_call_into_the_asyncio_runner")
        if out and out[0]["kind"] == "raised":
            problems.append(("trigger %s: the shielded cleanup of trio payload cleaner called execute(flavour=asyncio) with a coroutine of several steps, "
                             "and the call raised %s(%s) instead of returning the coroutine's result" % (trigger, out[0]["exc"], out[0]["msg"]), None))
    if run.of("block-start") and not run.of("accept-still-running"):
        result.count("terminations_with_blocked_threads")
    if suspects_out is not None:
        suspects_out.extend(suspects)
    return problems[:4]


def execute(case, result):
    run = common.run_and_observe(case, result)
    suspects = []
    problems = judge(case, run, result, suspects)
    if suspects and not problems:
        again = []
        for _ in range(2):
            more = []
            judge(case, common.run_and_observe(case, result), core.Result(), more)
            again.append({s[0] for s in more})
        for pid, steps, after, step in suspects:
            if all(pid in seen for seen in again):
                problems.append(("trigger %s: the cleanup of asyncio payload %s (a finally block awaiting %d zero-length steps) was hit by a further "
                                 "CancelledError %.1f ms after the first one, at step %d, in 3 of 3 runs of the scenario; the runner is expected "
                                 "to leave 0.1 s between two rounds of cancellations" % (case["meta"]["trigger"], pid, steps, 1000 * after, step), None))
            else:
                result.count("async_cleanup_interruptions_not_reproduced")
    return problems[:4], run


def run_exit_shard(spec, result):
    """Blocked thread payloads never prevent termination - of the process either (vlib/rt/exit_probe.py): the runtime in
    the main thread, blocked thread payloads adopted from every context, the run call ended; then the main thread returns
    and the interpreter must exit. Decided on an event (the process ended), watched by a generous wall-clock limit."""
    import json
    import os
    import subprocess

    only = spec.get("only_case")
    idx = -1
    for rep in range(spec["n"]):
        for ending in ("shutdown", "failure", "interrupt"):
            for mode in ("service", "meta"):
                idx += 1
                if only is not None and idx != only:
                    continue
                case = {"kind": "exit", "ending": ending, "mode": mode, "repetition": rep}
                proc = subprocess.Popen([core.PYTHON, "-m", "vlib.rt.exit_probe", ending, mode], stdout=subprocess.PIPE, stderr=subprocess.DEVNULL, text=True, env=dict(os.environ))
                line = proc.stdout.readline()
                try:
                    out = json.loads(line)
                except ValueError:
                    proc.kill()
                    result.inconc("exit probe %s printed nothing" % (case,))
                    continue
                if out.get("inconclusive") or len(out.get("blocked_payloads_started", [])) < 5:
                    proc.kill()
                    result.inconc("exit probe %s: %s" % (case, out))
                    continue
                try:
                    proc.wait(timeout=30)
                    ended = True
                except subprocess.TimeoutExpired:
                    ended = False
                    proc.kill()
                    proc.wait()
                result.case(dict(case, observed=out, process_ended=ended), nontrivial=True, key=json.dumps(case))
                result.count("process_exits_with_blocked_thread_payloads_checked")
                if not ended:
                    result.violation("with the runtime in the main thread and blocked thread payloads adopted from every context, the run call ended (%s, trigger %s) "
                                     "but the process did not end within 30 s after the main thread had returned: blocked thread payloads %s keep the interpreter alive"
                                     % (out.get("run_call"), ending, out.get("not_daemonic") or out.get("blocked_payloads_started")),
                                     dict(case, observed=out), None, spec={k: v for k, v in spec.items() if k != "only_case"}, case_id=idx)


def run_shard(spec):
    result = core.Result()
    if spec.get("kind") == "exit":
        run_exit_shard(spec, result)
        return result
    only = spec.get("only_case")
    for i in range(spec["n"]):
        if only is not None and i != only:
            continue
        case = gen_case(core.rng(PID, spec["seed"], spec["shard"], i), dict(spec, case_index=i + spec["shard"] * 5))
        problems, run = execute(case, result)
        result.case(common.sample(case, run, **{"trigger": case["meta"]["trigger"], "payloads": len(case["generations"][0]["payloads"])}),
                    nontrivial=bool(run.of("cancelled")), key=common.shape(case) + case["meta"]["trigger"])
        for what, mech in problems:
            clean = {k: v for k, v in spec.items() if k != "only_case"}
            result.violation(what, {"scenario": case, "run": run.witness()}, mech, spec=clean, case_id=i)
    return result


def finish(total, tier):
    need = ["running_coroutine_payloads_judged", "payloads_cancelled_and_cleaned_asyncio", "payloads_cancelled_and_cleaned_trio",
            "shielded_cleanups_finished_first", "terminations_with_blocked_threads", "payloads_adopted_during_termination_started", "scenarios_driving_metarunner_directly", "dispatcher_workers_judged", "private_waiters_cancelled_properly",
            "async_cleanups_finished_first", "shielded_cleanups_that_adopt_half_way_finished_first", "stubborn_payloads_cancelled_until_done_asyncio", "stubborn_payloads_cancelled_until_done_trio", "process_exits_with_blocked_thread_payloads_checked", "terminations_beside_trio_payloads_calling_into_asyncio", "cleanups_that_call_into_the_asyncio_runner", "terminations_with_self_renewing_payloads", "terminations_during_which_a_cleanup_requested_a_shutdown"]
    need += ["trigger_" + t for t in TRIGGERS if not t.startswith("systemexit")]
    for name in need:
        if not total.counters.get(name) and not total.violations:
            total.inconc("monitor never observed: " + name)
