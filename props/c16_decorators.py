"""C16 - decorators are transparent except for what they are meant to change.

Monitors: a recording pool at the bottom of a random decorator stack, and a logging handler
that snapshots the pool (state and write counter) at the moment each Logger record is
emitted; after every operation values read through the stack are compared with the pool.
"""
import logging
import warnings

from vlib import core, probe
from vlib.doubles import RecPool
from props.c06_standardiser import Ref, same

PID = "C16"

META = {
    "level": "exploration",
    "engine": "E3 reference model (recording pool + emission-time log handler)",
    "rule": (
        "seeded random stacks (depth 0-6, any order) of PoolDecorator, Logger, Standardiser (random limits) and "
        "Buffer over a recording pool; 1-40 operations (demand write incl. repeated equal values, read, change "
        "of the pool's supply/utilisation/allocation - utilisation above and below allocation -, outside change "
        "of the pool's demand); logger names incl. the default, the empty name (root logger) and other falsy-looking names, levels 1-50, default and custom templates, name and level changed after construction (rename / relevel steps in the history); "
        "kind=template: message templates over known (value, demand, supply, utilisation, allocation, "
        "consumption, target) and unknown field names with several conversion types. "
        "Non-trivial = stack depth >= 2 or a template with >= 1 field; distinct by content."
    ),
    "assumptions": [
        "Buffer services are not run: a Buffer only stores writes, so nothing below a Buffer sees them (C09 covers its run loop)",
        "the logging framework is configured so that the Logger's records are enabled (logger level 1)",
    ],
    "shard_timeout": {"quick": 300, "thorough": 1500},
}


def plan(tier, seed):
    big = tier == "thorough"
    specs = core.shards(seed, 60000 if big else 2500, 12 if big else 6, kind="stack")
    specs += core.shards(seed, 40000 if big else 2000, 4 if big else 2, kind="template")
    for s in specs:
        s["shard"] = "%s-%s" % (s["kind"], s["shard"])
    return specs


def gen_case(rnd, spec):
    depth = rnd.choice([0, 1, 1, 2, 2, 3, 4, 5, 6])
    stack = []
    for _ in range(depth):
        kind = rnd.choice(["PoolDecorator", "Logger", "Logger", "Standardiser", "Buffer"])
        p = {}
        if kind == "Logger":
            if rnd.random() < 0.6:
                p["name"] = rnd.choice(["verif.c16.a", "verif.c16.b", "verif.c16.c.d", "verif.c16.Ünï", "", "0", "RecPool"])
            if rnd.random() < 0.6:
                p["level"] = rnd.choice([rnd.randint(1, 50), rnd.randint(1, 9), 5, 51, 55, 60, 100])  # custom levels below DEBUG and above CRITICAL too
            if rnd.random() < 0.4:
                p["message"] = rnd.choice(["set %(value)s", "%(demand)s -> %(value)s on %(target)s", "u=%(utilisation).3f a=%(allocation)r s=%(supply)d"])
        elif kind == "Standardiser":
            if rnd.random() < 0.5:
                p["minimum"] = rnd.choice([0, 5, 10.5, -3])
            if rnd.random() < 0.5:
                p["maximum"] = rnd.choice([20, 50, 100.5])
            if rnd.random() < 0.4:
                p["granularity"] = rnd.choice([1, 2, 5])
            if rnd.random() < 0.3:
                p["surplus"] = rnd.choice([5, 10])
        elif kind == "Buffer" and rnd.random() < 0.5:
            p["window"] = rnd.randint(1, 30)
        stack.append([kind, p])
    ops = []
    last = 3
    for _ in range(rnd.randint(1, 40)):
        k = rnd.random()
        if k < 0.45:
            v = last if rnd.random() < 0.25 else rnd.choice([rnd.randint(-5, 60), rnd.randint(0, 480) / 8, 0, 0.0])
            last = v
            ops.append(["write", v])
        elif k < 0.6:
            ops.append(["read"])
        elif k < 0.9:
            if rnd.random() < 0.8:
                ops.append(["state", rnd.choice([0, 1, 10, rnd.randint(0, 100), rnd.random() * 50]), rnd.randint(0, 16) / 16, rnd.randint(0, 16) / 16])
            else:
                # a pool may report its fractions as any number: whole numbers, exact rationals
                frac = lambda: rnd.choice([0, 1, True, ["F", rnd.randint(0, 10), 10], ["F", rnd.randint(0, 3), 3], ["D", "0.%d" % rnd.randint(0, 99)]])  # noqa: E731
                ops.append(["state", rnd.choice([0, 1, 10, rnd.randint(0, 100)]), frac(), frac()])
        elif k < 0.93:
            ops.append(["outside", rnd.randint(0, 60)])
        elif k < 0.95:
            # the pool refuses the next write that reaches it (over quota, backend away): that write raises, nothing else changes
            ops.append(["refuse"])
            ops.append(["write", rnd.randint(0, 60)])
        elif k < 0.98:
            # a Logger is reconfigured after construction through its public attributes
            ops.append(["rename", rnd.randint(0, 5), rnd.choice(["verif.c16.renamed", "verif.c16.a", None, "", "verif.c16.other.x"])])
        else:
            ops.append(["relevel", rnd.randint(0, 5), rnd.choice([10, 20, 30, 35, 50, 1])])
    return {"stack": stack, "ops": ops, "init": {"demand": rnd.randint(0, 30), "supply": rnd.randint(0, 30)}}


def number(value):
    if isinstance(value, list):
        import decimal
        import fractions

        return fractions.Fraction(value[1], value[2]) if value[0] == "F" else decimal.Decimal(value[1])
    return value


class Capture(logging.Handler):
    def __init__(self, pool):
        super().__init__(level=1)
        self.pool = pool
        self.records = []
        self.kept = []
        self.only = None

    def emit(self, record):
        if self.only is not None and record.name not in self.only:
            return  # attached to the root logger: somebody else's record
        self.records.append((record, self.pool.writes, dict(self.pool.peek())))
        self.kept.append(dict(record.args) if isinstance(record.args, dict) else record.args)  # what the record said when it was emitted


class QuotaExceeded(Exception):
    pass


def execute(case, result):
    from cobald.interfaces import PoolDecorator
    from cobald.decorator.logger import Logger
    from cobald.decorator.standardiser import Standardiser
    from cobald.decorator.buffer import Buffer

    classes = {"PoolDecorator": PoolDecorator, "Logger": Logger, "Standardiser": Standardiser, "Buffer": Buffer}
    pool = RecPool(utilisation=0.5, allocation=0.5, **case["init"])
    layers = []  # bottom-up: (kind, params, object)
    obj = pool
    capture = Capture(pool)
    configured_level = {}
    hooked = []
    saved = []
    # records are enabled through the root logger's threshold; the named loggers keep whatever level they have (normally
    # none of their own) - a decorator that reconfigures the logging system is not transparent
    root = logging.getLogger()
    root_level = root.level
    root.setLevel(1)
    names = [p.get("name") for kind, p in case["stack"] if kind == "Logger"] + [op[2] for op in case["ops"] if op[0] == "rename"]
    untouched = {logging.getLogger(n if n is not None else "RecPool").name: logging.getLogger(n if n is not None else "RecPool").level for n in names}
    # the site has turned these loggers down (their own threshold above every level in use): no record is due, and nothing
    # else changes - a write still goes through
    muted = len(repr(case["ops"])) % 7 == 0 and "" not in names and None not in names
    original_levels = {n: logging.getLogger(n).level for n in names if n}
    if muted:
        for n in names:
            logging.getLogger(n).setLevel(2000)
        untouched = {k: 2000 for k in untouched}
        result.count("stacks_whose_loggers_are_turned_down_by_the_site")
    untouched["root"] = 1
    # where the handler sits: on the named loggers themselves, or - as most applications do it - on the root logger only,
    # which the records reach by propagation
    via_root = len(repr(case["stack"])) % 2 == 0 and "" not in names and None not in names
    if via_root:
        capture.only = set(untouched) - {"root"}
        root.addHandler(capture)
        hooked.append(root)
        result.count("stacks_whose_records_reach_the_handler_by_propagation")
    try:
        for kind, p in reversed(case["stack"]):
            obj = classes[kind](obj, **p)
            layers.append((kind, p, obj))
            if kind == "Logger" and "level" in p:
                configured_level[id(obj)] = p["level"]
            if kind == "Logger":
                configured = p["name"] if p.get("name") is not None else type(obj.target).__qualname__
                lg = logging.getLogger(configured)  # the empty name is the root logger, as in the logging module
                if obj.name != lg.name:
                    for h in hooked:
                        h.removeHandler(capture)
                    root.setLevel(root_level)
                    return [("Logger configured with name %r reports logger %r, expected %r" % (p.get("name"), obj.name, lg.name), None)]
                if lg not in hooked and not via_root:
                    saved.append((lg, untouched.get(lg.name, lg.level), lg.propagate))
                    lg.propagate = False
                    lg.addHandler(capture)
                    hooked.append(lg)
    except Exception as err:
        for lg in hooked:
            lg.removeHandler(capture)
        root.setLevel(root_level)
        return [("building the stack raised %r" % (err,), None)]
    top = obj
    layers.reverse()  # top-down
    kinds = [k for k, _, _ in layers]
    plain_only = all(k in ("PoolDecorator", "Logger") for k in kinds)
    problems = []

    def bad(msg):
        problems.append(("stack %s op %d %s: %s" % (kinds, idx, op, msg), None))

    try:
        for idx, op in enumerate(case["ops"]):
            if op[0] == "write":
                value = op[1]
                # walk down to predict which Loggers see the write and with which value
                expected = []  # (logger object, acceptable values, pre-write state of its target)
                vals = {value}
                reaches_pool = True
                for kind, p, layer in layers:
                    if kind == "Logger":
                        t = layer.target
                        pre = {"demand": t.demand, "supply": t.supply, "utilisation": t.utilisation, "allocation": t.allocation}
                        if not muted:
                            expected.append((layer, set(vals), pre))
                    elif kind == "Standardiser":
                        ref = Ref(p)
                        supply = pool.peek()["supply"]
                        vals = {float(a) if not isinstance(a, float) else a for v in vals for a in ref.forwarded(v, supply)}
                    elif kind == "Buffer":
                        reaches_pool = False
                        break
                n_records = len(capture.records)
                writes0 = pool.writes
                d0 = pool.peek()["demand"]
                refusal = pool.refuse_next if reaches_pool else None
                try:
                    top.demand = value
                except Exception as err:
                    if err is not refusal:
                        bad("write raised %r" % (err,))
                        continue
                    result.count("refused_writes_checked")
                else:
                    if refusal is not None:
                        bad("the pool refused the write with %r but the write through the stack raised nothing" % (refusal,))
                        continue
                finally:
                    pool.refuse_next = None
                new = capture.records[n_records:]
                result.count("writes_checked")
                if len(new) != len(expected):
                    bad("%d Logger(s) saw the write but %d record(s) were emitted" % (len(expected), len(new)))
                    continue
                for (record, writes_at_emit, state_at_emit), (layer, accept, pre) in zip(new, expected):
                    result.count("records_checked")
                    want_level = configured_level.get(id(layer), layer.level)  # what the configuration said, not what the object made of it
                    args = record.args
                    if record.name != layer.name or record.levelno != want_level:
                        bad("record on logger %r level %r, configured %r level %r" % (record.name, record.levelno, layer.name, want_level))
                    if not isinstance(args, dict):
                        bad("record arguments are %r" % (args,))
                        continue
                    if not any(args.get("value") == a for a in accept) and not any(same(args.get("value"), a) for a in accept if a == a):
                        bad("record carries value %r, the write arriving at this Logger is %r" % (args.get("value"), sorted(accept)))
                    for field in ("demand", "supply", "utilisation", "allocation"):
                        if args.get(field) != pre[field]:
                            bad("record carries %s=%r, the target had %r before the write" % (field, args.get(field), pre[field]))
                    if args.get("target") is not layer.target:
                        bad("record's target is %r" % (args.get("target"),))
                    if writes_at_emit != writes0 or state_at_emit["demand"] != d0:
                        bad("record was emitted after the write had been applied to the pool")
                    try:
                        record.getMessage()
                    except Exception as err:
                        bad("record message does not format: %r" % (err,))
                if refusal is not None:
                    if pool.writes != writes0 or pool.peek()["demand"] != d0:
                        bad("a refused write changed the pool")
                elif plain_only:
                    got = pool.peek()["demand"]
                    if pool.writes != writes0 + 1 or got != value or type(got) is not type(value):
                        bad("write of %r through a transparent stack left the pool with %r (%d writes)" % (value, got, pool.writes - writes0))
                    result.count("transparent_writes_checked")
                elif not reaches_pool and pool.writes != writes0:
                    bad("a write above a Buffer reached the pool immediately")
            elif op[0] == "read":
                pass
            elif op[0] == "state":
                pool.poke(supply=op[1], utilisation=number(op[2]), allocation=number(op[3]))
                if not isinstance(op[2], float) or not isinstance(op[3], float):
                    result.count("states_with_fractions_that_are_not_floats")
            elif op[0] == "outside":
                pool.poke(demand=op[1])
            elif op[0] == "refuse":
                pool.refuse_next = QuotaExceeded("the pool refuses this demand")
            elif op[0] in ("rename", "relevel"):
                loggers = [layer for kind, _, layer in layers if kind == "Logger"]
                if loggers:
                    layer = loggers[op[1] % len(loggers)]
                    if op[0] == "relevel":
                        layer.level = op[2]
                        configured_level[id(layer)] = op[2]
                        result.count("loggers_releveled")
                    else:
                        layer.name = op[2]
                        want = logging.getLogger(op[2] if op[2] is not None else type(layer.target).__qualname__)
                        if layer.name != want.name:
                            bad("after setting name to %r the Logger reports %r, expected %r" % (op[2], layer.name, want.name))
                        if via_root:
                            capture.only.add(want.name)
                        elif want not in hooked:
                            saved.append((want, untouched.get(want.name, want.level), want.propagate))
                            want.propagate = False
                            want.addHandler(capture)
                            hooked.append(want)
                        result.count("loggers_renamed")
            state = pool.peek()
            for attr in ("supply", "utilisation", "allocation"):
                try:
                    got = getattr(top, attr)
                except Exception as err:
                    bad("%s raised %r" % (attr, err))
                    continue
                if got != state[attr] or type(got) is not type(state[attr]):
                    bad("%s through the stack is %r, the pool reports %r" % (attr, got, state[attr]))
            result.count("reads_checked", 3)
            if state["utilisation"] > state["allocation"]:
                result.count("states_utilisation_above_allocation")
            if plain_only:
                got = top.demand
                if got != state["demand"] or type(got) is not type(state["demand"]):
                    bad("demand through a transparent stack is %r, the pool has %r" % (got, state["demand"]))
        # a record is a statement about one write: later writes do not rewrite it (handlers may format records later)
        for n, ((record, _, _), kept) in enumerate(zip(capture.records, capture.kept)):
            now = record.args
            if isinstance(kept, dict) and (not isinstance(now, dict) or set(now) != set(kept) or any(now[k] is not kept[k] and now[k] != kept[k] for k in kept)):
                problems.append(("stack %s: record %d of %d said %r when it was emitted and says %r after the later operations"
                                 % (kinds, n, len(capture.records), {k: v for k, v in kept.items() if k != "target"},
                                    {k: v for k, v in now.items() if k != "target"} if isinstance(now, dict) else now), None))
                break
        if len(capture.records) >= 2:
            result.count("stacks_whose_earlier_records_were_read_again_after_later_writes")
    finally:
        for lg in hooked:
            lg.removeHandler(capture)
        for lg, level, propagate in saved:
            if lg.level != level and lg is not root:
                problems.append(("stack %s: the level of logging.getLogger(%r) was changed from %r to %r by the Logger decorator(s)"
                                 % (kinds, lg.name, level, lg.level), None))
            lg.setLevel(level)
            lg.propagate = propagate
        root.setLevel(root_level)
        if muted:
            for n, level in original_levels.items():
                logging.getLogger(n).setLevel(level)
    return problems[:4]


# ------------------------------------------------------------------------------ templates
KNOWN = {"value": "sfdr", "demand": "sfdr", "supply": "sfdr", "utilisation": "sfr", "allocation": "sfr", "consumption": "sfr", "target": "sr"}
UNKNOWN = ["foo", "Value", "demands", "pool", "name", "level", "", "valu", "target_demand", "consumtion"]


def gen_template(rnd, spec):
    parts, fields = [], []
    odd = False
    for _ in range(rnd.randint(0, 4)):
        if rnd.random() < 0.12:
            # a known field with a conversion that does not fit every value (hex / octal / character): whether that alone is
            # refused is not judged - an unknown field anywhere in the template still is
            f = rnd.choice(["value", "demand", "supply", "target"])
            conv = rnd.choice("xoc")
            odd = True
        elif rnd.random() < 0.75:
            f = rnd.choice(sorted(KNOWN))
            conv = rnd.choice(KNOWN[f])
        else:
            f = rnd.choice(UNKNOWN)
            conv = "s"
        spec_ = rnd.choice(["", "", ".2", "8", "-6"]) if conv in "f" else rnd.choice(["", "", "10", "-4"]) if conv in "sr" else ""
        parts.append(rnd.choice(["", "x ", "demand=", "[", "100%% "]) + "%%(%s)%s%s" % (f, spec_, conv))
        fields.append(f)
    if odd and rnd.random() < 0.7:
        parts.append("on %%(%s)s" % rnd.choice(UNKNOWN[:8]))  # ... followed by a field that does not exist
        fields.append("?")
    return {"message": " ".join(parts) or "constant text", "fields": fields, "odd": odd}


def exec_template(case, result):
    from cobald.decorator.logger import Logger

    pool = RecPool(demand=3, supply=4, utilisation=0.25, allocation=0.75)
    unknown = [f for f in case["fields"] if f not in KNOWN]
    err = None
    with warnings.catch_warnings():
        warnings.simplefilter("ignore")
        try:
            lg = Logger(pool, name="verif.c16.template", message=case["message"])
        except Exception as e:  # noqa: B902
            err = e
    if unknown:
        result.count("templates_unknown_field")
        if err is None:
            return [("template %r names unknown field(s) %r but was accepted" % (case["message"], unknown), None)]
        return []
    if case.get("odd"):
        result.count("templates_with_a_conversion_that_does_not_fit_and_no_unknown_field")
        return []
    result.count("templates_known_fields")
    if err is not None:
        return [("template %r over known fields was rejected: %r" % (case["message"], err), None)]
    capture = Capture(pool)
    logger = logging.getLogger("verif.c16.template")
    logger.setLevel(1)
    logger.propagate = False
    logger.addHandler(capture)
    try:
        with warnings.catch_warnings():
            warnings.simplefilter("ignore")
            lg.demand = 9
    finally:
        logger.removeHandler(capture)
    if len(capture.records) != 1:
        return [("%d records for one write" % len(capture.records), None)]
    record = capture.records[0][0]
    want = case["message"] % {"value": 9, "demand": 3, "supply": 4, "utilisation": 0.25, "allocation": 0.75, "consumption": 0.75, "target": pool}
    try:
        got = record.getMessage()
    except Exception as err:  # noqa: B902
        return [("the record of a template accepted at construction (%r) does not format: %r (record fields %s)"
                 % (case["message"], err, sorted(record.args) if isinstance(record.args, dict) else record.args), None)]
    if got != want:
        return [("message %r, expected %r" % (got, want), None)]
    return []


def nontrivial(case):
    if "stack" in case:
        return len(case["stack"]) >= 2
    return len(case["fields"]) >= 1


def run_shard(spec):
    result = core.Result()
    pr = probe.LineProbe("interfaces/_proxy.py", "decorator/logger.py").start()
    try:
        if spec["kind"] == "stack":
            core.drive(PID, spec, gen_case, execute, result, nontrivial=nontrivial, stall=20)
        else:
            core.drive(PID, spec, gen_template, exec_template, result, nontrivial=nontrivial, stall=20)
    finally:
        pr.stop()
    pr.record(result)
    return result


def finish(total, tier):
    for name in ("writes_checked", "records_checked", "transparent_writes_checked", "reads_checked", "loggers_renamed", "loggers_releveled",
                 "states_utilisation_above_allocation", "states_with_fractions_that_are_not_floats", "stacks_whose_loggers_are_turned_down_by_the_site", "stacks_whose_records_reach_the_handler_by_propagation", "stacks_whose_earlier_records_were_read_again_after_later_writes", "templates_unknown_field", "templates_known_fields"):
        if not total.counters.get(name) and not total.violations:
            total.inconc("monitor never observed: " + name)
