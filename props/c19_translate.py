"""C19 - nested __type__ mappings translate bottom-up with exact error locations.

Monitor: the factories of plugins/vfact append every call (name, args, kwargs, product) to a
global log; the translated structure and the log are compared with an independent recursive
evaluation of the generated tree; for trees with one failing node the reported location must
be exactly that node's path and no ancestor may have been constructed.
"""
import sys

from vlib import core, faclog, probe

PID = "C19"

META = {
    "level": "exploration",
    "engine": "E3 reference model (global factory call log vs independent recursive evaluation)",
    "rule": (
        "seeded random trees of mappings, lists and scalars (incl. bytes, tuples, ranges: plain data that must come out as it went in) (depth <= 7, fan-out <= 5, __type__ "
        "density 0-60%), __type__ nodes also inside __args__ lists and as keyword items; factories: "
        "module function, class, nested classes, static/class methods, submodule and sub-package "
        "members (modules purged from sys.modules in a third of the cases so that the import path "
        "runs); half of the cases make exactly one node fail (unknown module / unknown attribute on "
        "an importable module or class / raising factory / a factory raising an exception that has a `where` attribute of its own / factories raising AssertionError, KeyError, TypeError, AttributeError, ImportError, StopIteration, OSError, LookupError, RuntimeError, NotImplementedError / wrong arguments / non-callable / a __type__ that is null, empty, 0 or false) at a random "
        "position; half of the trees whose root is a __type__ mapping are translated with extra construct keywords "
        "(as the pipeline translator passes target=...), which only the root element may receive; half of those get a second failing element nested inside the first (the inner one must be reported); mapping keys "
        "that are not strings (ints, floats, booleans, null); a quarter of the valid trees hold one container object at two positions (what a YAML alias "
        "produces): every position must be constructed on its own; 5 % of the cases are lists with two items that compare equal (1 == True == 1.0) of which only the later one fails; optional non-empty root location. Non-trivial = at least two __type__ nodes; "
        "distinct by content."
    ),
    "assumptions": [
        "factories do not themselves raise ConfigurationError with an explicit location (one of them raises a prepared ConfigurationError object *without* location, the same object on every call)",
        "order among the values of one mapping is not constrained (only children-before-parents and, within a list, later items first)",
    ],
    "shard_timeout": {"quick": 300, "thorough": 1500},
}
FACTORIES = [
    "vfact.make", "vfact.Thing", "vfact.Thing.Inner", "vfact.Thing.Inner.Innermost", "vfact.Thing.build",
    "vfact.Thing.cbuild", "vfact.sub.make", "vfact.sub.Klass", "vfact.sub.Klass.build", "vfact.deep.leaf.make",
    "vfact.give_list", "vfact.give_quoted",  # products that are plain containers holding something that looks like a definition
]
FAILURES = {
    "unknown_module": "vfact_nosuch.thing",
    "unknown_top": "nosuchmodule_xyz",
    "unknown_attr": "vfact.nosuch",
    "unknown_attr_deep": "vfact.Thing.Inner.nosuch",
    "unknown_attr_sub": "vfact.sub.Klass.nosuch.more",
    "unknown_submodule": "vfact.deep.nosuch.make",
    "raises": "vfact.boom",
    "raises_with_where": "vfact.boom_where",
    "raises_assertion": "vfact.boom_assert",
    "raises_prepared_config_error": "vfact.boom_cfg",
    "raises_other": None,  # one of RAISERS, chosen per case
    "not_callable": "vfact.CONSTANT",
    "module_not_callable": "vfact.sub",
    "wrong_args": "vfact.strict",
    "type_is_null": None,
    "type_is_empty": "",
    "type_is_zero": 0,
    "type_is_false": False,
}


RAISERS = ["vfact.boom_assert", "vfact.boom_key", "vfact.boom_type", "vfact.boom_attr", "vfact.boom_import", "vfact.boom_stop", "vfact.boom_os",
           "vfact.boom_lookup", "vfact.boom_runtime", "vfact.boom_notimpl", "vfact.boom_percent", "vfact.boom_pattern", "vfact.boom_percent"]


def plan(tier, seed):
    return core.shards(seed, 120000 if tier == "thorough" else 4000, 16 if tier == "thorough" else 8)


# ------------------------------------------------------------------------------ generator
def gen_scalar(rnd):
    if rnd.random() < 0.1:
        # plain data that is a sequence but neither a list nor a str: handed on as it is
        return rnd.choice([b"\x00bin", b"", (1, 2), (), range(3), bytearray(b"ab"), ("x", {"k": 1}), ("pipeline", 1), b"pipeline"])
    return rnd.choice([0, 1, -7, 2.5, 0.0, True, False, None, "", "text", "__type__", "a.b", "é🚀", 10**12,
                       "pipeline", "main-pipeline.yaml", "__args__"])


def gen_tree(rnd, depth, density, counter, max_depth):
    k = rnd.random()
    if depth >= max_depth or k < (0.05 if depth < 2 else 0.25):
        return gen_scalar(rnd)
    if k < 0.5:
        return [gen_tree(rnd, depth + 1, density, counter, max_depth) for _ in range(rnd.randint(0, 5 if depth < 3 else 2))]
    node = {}
    is_type = rnd.random() < density
    if is_type:
        node["__type__"] = rnd.choice(FACTORIES)
        node["nid"] = counter[0]
        counter[0] += 1
        if rnd.random() < 0.5:
            node["__args__"] = [gen_tree(rnd, depth + 1, density, counter, max_depth) for _ in range(rnd.randint(0, 3))]
    for _ in range(rnd.randint(0, 4 if depth < 3 else 2)):
        key = rnd.choice(["a", "b", "c", "key", "x1", "items", "pool", "k.dot", "k[0]", "é"])
        if rnd.random() < 0.15:
            # settings called like things the translator itself has names for: they are the factory's keywords all the same
            key = rnd.choice(["factory", "func", "mapping", "kwargs", "args", "where", "structure", "absolute_name", "name", "target"])
        if not is_type and rnd.random() < 0.12:
            key = rnd.choice([1, 0, 3, True, None, 0.5])  # YAML mappings may have keys that are not strings
        elif not is_type and rnd.random() < 0.06:
            key = "__args__"  # plain data may use any key: without __type__ this is just a key (a job template, quoted settings)
        if key not in node:
            node[key] = gen_tree(rnd, depth + 1, density, counter, max_depth)
    if is_type and rnd.random() < 0.3:  # key order: __type__ need not come first
        items = list(node.items())
        rnd.shuffle(items)
        node = dict(items)
    return node


def type_nodes(tree, path=""):
    """All __type__ nodes with their paths, in document order."""
    found = []
    if isinstance(tree, dict):
        if "__type__" in tree:
            found.append((tree, path))
        for key, value in tree.items():
            found += type_nodes(value, "%s.%s" % (path, key))
    elif isinstance(tree, list):
        for i, value in enumerate(tree):
            found += type_nodes(value, "%s[%s]" % (path, i))
    return found


def gen_equal_items(rnd):
    """A list holding two items that compare equal (1 == True == 1.0) of which only the later one fails."""
    n = rnd.randint(2, 5)
    j = rnd.randint(1, n - 1)
    i = rnd.randint(0, j - 1)
    wrap = rnd.choice(["bare", "bare", "list", "dict"])

    def twin(x):
        node = {"__type__": "vfact.intonly", "x": x, "nid": 900}
        return {"bare": node, "list": [node], "dict": {"k": node}}[wrap]

    items = [rnd.choice([0, "text", None, [2], {"a": 3}, {"__type__": "vfact.make", "nid": 100 + k}]) for k in range(n)]
    items[i] = twin(1)
    items[j] = twin(rnd.choice([True, 1.0]))
    host = rnd.choice(["root", "key", "args", "nested"])
    tree, path = {"root": (items, ""), "key": ({"items": items, "other": 1}, ".items"),
                  "args": ({"__type__": "vfact.make", "nid": 99, "__args__": [0, items]}, ".__args__[1]"),
                  "nested": ([["x"], items], "[1]")}[host]
    where = rnd.choice(["", "", "cfg", ".pipeline[2]"])
    expect = where + path + "[%d]" % j + {"bare": "", "list": "[0]", "dict": ".k"}[wrap]
    return {"tree": tree, "equal_items": {"expect": expect, "i": i, "j": j}, "where": where, "fail": None, "purge": False, "share": None, "extra": None}


FOREIGN = [
    # (definition, the call it stands for) - factories that are not plain Python functions: builtin and C-implemented types,
    # classes derived from them, and positional arguments given as a one-shot iterator (e.g. what another factory returned)
    ({"__type__": "builtins.dict", "a": 1, "b": "<child>"}, lambda child: dict(a=1, b=child)),
    ({"__type__": "builtins.dict", "__args__": [[["k", 1]]], "z": 2}, lambda child: dict([["k", 1]], z=2)),
    ({"__type__": "builtins.range", "__args__": [0, 5]}, lambda child: range(0, 5)),
    ({"__type__": "builtins.int", "__args__": ["7"]}, lambda child: 7),
    ({"__type__": "collections.deque", "__args__": [[1, 2, 3]], "maxlen": 2}, lambda child: __import__("collections").deque([1, 2, 3], maxlen=2)),
    ({"__type__": "collections.OrderedDict", "x": "<child>"}, lambda child: __import__("collections").OrderedDict(x=child)),
    ({"__type__": "datetime.timedelta", "hours": 2, "minutes": 30}, lambda child: __import__("datetime").timedelta(hours=2, minutes=30)),
    ({"__type__": "fractions.Fraction", "__args__": [1, 3]}, lambda child: __import__("fractions").Fraction(1, 3)),
    ({"__type__": "vfact.Settings", "mode": "fast", "inner": "<child>"}, lambda child: {"mode": "fast", "inner": child}),
    ({"__type__": "vfact.make", "nid": 70, "__args__": "<iter>"}, None),
]


def gen_foreign(rnd):
    i = rnd.randrange(len(FOREIGN))
    host = rnd.choice(["root", "key", "list", "arg"])
    return {"foreign": i, "host": host, "where": rnd.choice(["", "cfg"]), "tree": {"foreign": i, "host": host}, "fail": None, "purge": False, "share": None, "extra": None}


def run_foreign(case, result):
    import copy
    from cobald.daemon.config.mapping import Translator

    definition, reference = FOREIGN[case["foreign"]]
    node = copy.deepcopy(definition)
    child = {"__type__": "vfact.make", "nid": 71}
    for k, v in node.items():
        if v == "<child>":
            node[k] = child
    one_shot = node.get("__args__") == "<iter>"
    if one_shot:
        node["__args__"] = iter([1, "two", 3.0])
    tree = {"root": node, "key": {"settings": node, "n": 1}, "list": [0, node], "arg": {"__type__": "vfact.make", "nid": 72, "__args__": [node]}}[case["host"]]
    kwargs = {"where": case["where"]} if case["where"] else {}
    try:
        out = Translator().translate_hierarchy(tree, **kwargs)
    except Exception as e:  # noqa: B902
        return [("valid definition %r rejected: %r" % (definition, e), None)]
    products = {e["kwargs"].get("nid"): e for e in faclog.LOG}
    got = {"root": lambda: out, "key": lambda: out["settings"], "list": lambda: out[1], "arg": lambda: products[72]["args"][0]}[case["host"]]()
    result.count("definitions_naming_builtin_or_derived_types_or_one_shot_arguments")
    if one_shot:
        entry = products.get(70)
        if entry is None or entry["args"] != (1, "two", 3.0):
            return [("positional arguments given as a one-shot iterator (1, 'two', 3.0) arrived as %r" % (entry and entry["args"],), None)]
        return []
    want = reference(products[71]["product"] if 71 in products else None)
    if definition["__type__"] == "vfact.Settings":
        import vfact

        want = vfact.Settings(want)
    if type(got) is not type(want) or got != want:
        return [("definition %r gave %r, the call it stands for gives %r" % (definition, got, want), None)]
    if "<child>" in definition.values() and (71 not in products or not any(v is products[71]["product"] for v in got.values())):
        return [("definition %r: the nested definition's product is not what the factory received" % (definition,), None)]
    return []


def gen_pipeline(rnd):
    """A `pipeline` list for the pipeline translator: elements are built last to first, each gets the next as its target;
    a failing definition in or below element i is located at <where>[i]..."""
    n = rnd.randint(1, 7)
    fail_at = rnd.randrange(n) if rnd.random() < 0.6 else None
    depth = rnd.choice(["element", "keyword", "argument"])
    if n >= 2 and rnd.random() < 0.2:
        # an element that is an object already (as a !Tag leaves it) and cannot be put in front of its successor
        fail_at, depth = rnd.randrange(n - 1), rnd.choice(["binder_TypeError", "binder_KeyError"])
    # plain settings of the elements, some of them spelled like the translator's own vocabulary
    notes = [rnd.choice([None, None, "pipeline", "main-pipeline.yaml", ["pipeline", "site"], ("pipeline",), b"pipeline", "__type__", {"k": "pipeline"}]) for _ in range(n)]
    return {"notes": notes, "pipeline": n, "fail_at": fail_at, "depth": depth, "fail_type": rnd.choice(["vfact.boom", "vfact.nosuch", "vfact_nosuch.thing"]),
            "where": rnd.choice(["", "cfg", ".sites[1]"]), "tree": {"pipeline": n, "fail_at": fail_at, "depth": depth}, "fail": None, "purge": False, "share": None, "extra": None}


def run_pipeline(case, result):
    from cobald.daemon.core.config import PipelineTranslator
    from cobald.daemon.config.mapping import ConfigurationError

    n, fail_at = case["pipeline"], case["fail_at"]
    elements = [{"__type__": "vfact.make", "nid": i, "label": "e%d" % i} for i in range(n)]
    for element, note in zip(elements, case.get("notes", [])):
        if note is not None:
            element["note"] = note
            result.count("pipeline_elements_with_settings_spelled_like_the_translators_vocabulary")
    want_where = None
    if fail_at is not None and case["depth"].startswith("binder_"):
        class Binder:
            def __rshift__(self, other):
                raise {"TypeError": TypeError, "KeyError": KeyError}[case["depth"][7:]]("this element cannot be chained to %r" % (other,))

        elements[fail_at] = Binder()
        kwargs = {"where": case["where"]} if case["where"] else {}
        result.count("pipelines_with_an_element_that_cannot_be_chained")
        try:
            out = PipelineTranslator().translate_hierarchy({"pipeline": elements}, **kwargs)
        except Exception:  # noqa: B902 - which kind is not judged: the element is nobody's definition
            built = [entry["kwargs"].get("nid") for entry in faclog.LOG]
            if sorted(built) != list(range(fail_at + 1, n)):
                return [("pipeline of %d elements, element %d cannot be chained: definitions %r were built, expected each of those behind it exactly once" % (n, fail_at, built), None)]
            return []
        return [("pipeline of %d elements, element %d cannot be chained to its successor, yet translation returned %.120r" % (n, fail_at, out), None)]
    if fail_at is not None:
        broken = {"__type__": case["fail_type"], "nid": 100}
        if case["depth"] == "element":
            elements[fail_at] = broken
            want_where = "%s[%d]" % (case["where"], fail_at)
        elif case["depth"] == "keyword":
            elements[fail_at]["settings"] = {"inner": broken}
            want_where = "%s[%d].settings.inner" % (case["where"], fail_at)
        else:
            elements[fail_at]["__args__"] = [0, [broken]]
            want_where = "%s[%d].__args__[1][0]" % (case["where"], fail_at)
    kwargs = {"where": case["where"]} if case["where"] else {}
    result.count("pipelines_translated_by_the_pipeline_translator")
    try:
        out = PipelineTranslator().translate_hierarchy({"pipeline": elements}, **kwargs)
    except ConfigurationError as e:
        if fail_at is None:
            return [("valid pipeline rejected: %r" % (e,), None)]
        built = sorted(entry["kwargs"].get("nid") for entry in faclog.LOG)
        problems = []
        if e.where != want_where:
            problems.append(("pipeline of %d elements, failing definition at %r: the error reports %r" % (n, want_where, e.where), None))
        if built != list(range(fail_at + 1, n)):
            problems.append(("pipeline of %d elements, element %d fails: elements %r were built, expected exactly those behind it" % (n, fail_at, built), None))
        result.count("failing_pipeline_elements_located")
        return problems
    except Exception as e:  # noqa: B902
        return [("the pipeline translator raised %r instead of a ConfigurationError" % (e,), None)]
    if fail_at is not None:
        return [("pipeline with a failing definition at %r was accepted" % want_where, None)]
    order = [entry["kwargs"].get("nid") for entry in faclog.LOG]
    problems = []
    if order != list(range(n - 1, -1, -1)):
        problems.append(("pipeline of %d elements was built in the order %r, expected last to first" % (n, order), None))
    by_nid = {entry["kwargs"].get("nid"): entry for entry in faclog.LOG}
    for i in range(n):
        entry = by_nid.get(i)
        if entry is None:
            continue
        target = entry["kwargs"].get("target")
        note = case.get("notes", [None] * n)[i]
        if note is not None and (entry["kwargs"].get("note") != note or type(entry["kwargs"].get("note")) is not type(note)):
            problems.append(("element %d was configured with note=%r and received %r" % (i, note, entry["kwargs"].get("note")), None))
        if i == n - 1 and "target" in entry["kwargs"]:
            problems.append(("the last element was given a target", None))
        if i < n - 1 and (i + 1 not in by_nid or target is not by_nid[i + 1]["product"]):
            problems.append(("element %d did not receive element %d as its target" % (i, i + 1), None))
    if not isinstance(out, list) or len(out) != n or any(out[i] is not by_nid[i]["product"] for i in range(n) if i in by_nid):
        problems.append(("the translated pipeline is %r" % (out,), None))
    return problems[:3]


def gen_case(rnd, spec):
    if rnd.random() < 0.05:
        return gen_equal_items(rnd)
    if rnd.random() < 0.05:
        return gen_pipeline(rnd)
    if rnd.random() < 0.04:
        return gen_foreign(rnd)
    counter = [0]
    density = rnd.choice([0.0, 0.15, 0.3, 0.45, 0.6])
    max_depth = rnd.choice([2, 3, 4, 5, 7])
    tree = gen_tree(rnd, 0, density, counter, max_depth)
    if not isinstance(tree, (dict, list)) and rnd.random() < 0.8:
        tree = {"root": tree, "n": {"__type__": "vfact.make", "nid": counter[0]}}
        counter[0] += 1
    nodes = type_nodes(tree)
    fail = None
    if nodes and rnd.random() < 0.5:
        target, _ = rnd.choice(nodes)
        kind = rnd.choice(sorted(FAILURES))
        target["__type__"] = FAILURES[kind]
        if kind == "raises_other":
            target["__type__"] = rnd.choice(RAISERS)
        if kind == "wrong_args":
            for key in [k for k in target if k not in ("__type__", "nid")]:
                del target[key]  # children would be legitimate arguments of vfact.strict
            target["__args__"] = rnd.choice([[], [1, 2, 3], [1]])
            if target["__args__"] == [1]:
                target["b"] = 5
                target["zzz"] = 1  # unknown keyword
        fail = {"nid": target["nid"], "kind": kind}
        # sometimes a second failing element *inside* the first one: bottom-up translation meets the inner one first
        inner = [n for n, _ in type_nodes(target) if n is not target and n["__type__"] in FACTORIES]
        if inner and kind != "wrong_args" and rnd.random() < 0.5:
            victim = rnd.choice(inner)
            victim["__type__"] = FAILURES[rnd.choice(["raises", "unknown_attr", "unknown_module", "not_callable"])]
            fail["inner_nid"] = victim["nid"]
    share = None
    if fail is None and rnd.random() < 0.25:
        # the same container object at a second position (what a YAML alias produces)
        containers = [p for p in container_paths(tree) if p]
        hosts = [p for p in container_paths(tree) if isinstance(get_at(tree, p), dict) and "__type__" not in get_at(tree, p)]
        if containers and hosts:
            src = rnd.choice(containers)
            dst = rnd.choice(hosts)
            if dst[: len(src)] != src:  # not inside itself: no cycles
                share = {"from": src, "into": dst, "key": "shared_copy"}
    extra = None
    if isinstance(tree, dict) and "__type__" in tree and share is None and rnd.random() < 0.5:
        # additional construct keywords (as the pipeline translator passes target=...): for the root element only
        extra = {"target": "TARGET-MARKER", "xtra": 7} if rnd.random() < 0.5 else {"target": "TARGET-MARKER"}
        if fail is not None and fail["nid"] == tree.get("nid") and fail["kind"] == "wrong_args":
            extra = None
    return {"tree": tree, "fail": fail, "where": rnd.choice(["", "", "", "cfg", ".pipeline[2]"]),
            "purge": rnd.random() < 0.35, "share": share, "extra": extra, "odd_containers": share is None and rnd.random() < 0.15}


def container_paths(tree, path=()):
    out = []
    if isinstance(tree, dict):
        out.append(list(path))
        for k, v in tree.items():
            out += container_paths(v, path + (k,))
    elif isinstance(tree, list):
        out.append(list(path))
        for i, v in enumerate(tree):
            out += container_paths(v, path + (i,))
    return out


def get_at(tree, path):
    for step in path:
        tree = tree[step]
    return tree


# ------------------------------------------------------------------------------ reference
def match(actual, expected_tree, products, problems, path):
    """Compare a translated value with the original tree (products by node id)."""
    if isinstance(expected_tree, dict) and "__type__" in expected_tree:
        want = products.get(expected_tree["nid"])
        if want is None or actual is not want:
            problems.append("at %r: expected the product of node %s, got %r" % (path, expected_tree["nid"], actual))
        return
    if isinstance(expected_tree, dict):
        if type(actual) is not dict or list(actual.keys()) != list(expected_tree.keys()):
            problems.append("at %r: mapping changed: %r" % (path, actual))
            return
        for key in expected_tree:
            match(actual[key], expected_tree[key], products, problems, "%s.%s" % (path, key))
    elif isinstance(expected_tree, list):
        if type(actual) is not list or len(actual) != len(expected_tree):
            problems.append("at %r: list changed: %r" % (path, actual))
            return
        for i, item in enumerate(expected_tree):
            match(actual[i], item, products, problems, "%s[%s]" % (path, i))
    else:
        if type(actual) is not type(expected_tree) or actual != expected_tree:
            problems.append("at %r: plain value %r became %r" % (path, expected_tree, actual))


def subtree_nids(tree):
    return [n["nid"] for n, _ in type_nodes(tree)]


def order_constraints(tree, out):
    """Pairs (earlier nid, later nid) that the statement prescribes."""
    if isinstance(tree, dict):
        if "__type__" in tree:
            for key, value in tree.items():
                for nid in subtree_nids(value):
                    out.append((nid, tree["nid"]))
        for value in tree.values():
            order_constraints(value, out)
    elif isinstance(tree, list):
        for i, item in enumerate(tree):
            later = subtree_nids(item)
            for j in range(i):
                for a in later:
                    for b in subtree_nids(tree[j]):
                        out.append((a, b))  # later list items are translated before earlier ones
            order_constraints(item, out)


def execute(case, result):
    from cobald.daemon.config.mapping import Translator, ConfigurationError

    if case["purge"]:
        for name in [m for m in sys.modules if m == "vfact" or m.startswith("vfact.")]:
            del sys.modules[name]
        result.count("cases_with_fresh_imports")
    faclog.reset()
    if "foreign" in case:
        return run_foreign(case, result)
    if "pipeline" in case:
        return run_pipeline(case, result)
    tree, fail = case["tree"], case["fail"]
    if case.get("equal_items"):
        # only the later of two items that compare equal fails: its index, not the first equal item's, locates the error
        result.count("lists_with_equal_items_of_which_the_later_fails")
        kwargs = {"where": case["where"]} if case["where"] else {}
        try:
            Translator().translate_hierarchy(tree, **kwargs)
        except ConfigurationError as e:
            if e.where != case["equal_items"]["expect"]:
                return [("the failing item (equal to, but not the same as, item %d of its list) is at %r, error reports %r"
                         % (case["equal_items"]["i"], case["equal_items"]["expect"], e.where), None)]
            return []
        except Exception as e:
            return [("translate_hierarchy raised %r instead of a ConfigurationError" % (e,), None)]
        return [("tree with a failing item at %r was accepted" % case["equal_items"]["expect"], None)]
    if case.get("share"):
        import copy

        tree = copy.deepcopy(tree)
        sh = case["share"]
        get_at(tree, sh["into"])[sh["key"]] = get_at(tree, sh["from"])  # the very same object, twice
        return execute_shared(case, tree, result)
    if case.get("odd_containers"):
        # what other loaders produce: mappings and sequences that derive from dict / list (ordered mappings, lists with line numbers)
        import collections

        class Listing(list):
            line = 7

        def derive(value):
            if isinstance(value, dict):
                return collections.OrderedDict((k, derive(v)) for k, v in value.items())
            if isinstance(value, list):
                return Listing(derive(v) for v in value)
            return value

        tree = derive(tree)
        result.count("trees_of_dict_and_list_subclasses")
    nodes = type_nodes(tree, case["where"])
    by_nid = {n["nid"]: (n, path) for n, path in nodes}
    kwargs = {"where": case["where"]} if case["where"] else {}
    if case.get("extra"):
        kwargs.update(case["extra"])
        result.count("translations_with_extra_construct_keywords")
    err = None
    translator = Translator()
    import copy

    untouched = copy.deepcopy(tree)
    try:
        out = translator.translate_hierarchy(tree, **kwargs)
    except ConfigurationError as e:
        err = e
    except Exception as e:
        return [("translate_hierarchy raised %r instead of a ConfigurationError" % (e,), None)]
    try:
        same = tree == untouched
    except Exception:  # noqa: B902
        same = False
    if not same:
        # the configuration that was handed in is the caller's: translation builds a new hierarchy beside it
        return [("translate_hierarchy changed the structure it was given (definitions in it were replaced by what they construct)", None)]
    log = list(faclog.LOG)
    problems = []
    stale = [entry["name"] for entry in log if entry.get("stale")]
    if stale:
        problems.append("factories %r were called that belong to a module loaded before it was loaded anew: the names mean something else now" % sorted(set(stale)))
    seen = {}
    for entry in log:
        nid = entry["kwargs"].get("nid")
        if nid in seen:
            problems.append("node %s constructed more than once" % nid)
        seen[nid] = entry
    products = {nid: e["product"] for nid, e in seen.items()}
    position = {nid: e["seq"] for nid, e in seen.items()}
    # arguments of every performed call
    for nid, entry in seen.items():
        if nid not in by_nid:
            problems.append("factory called for unknown node %r" % (nid,))
            continue
        node, path = by_nid[nid]
        if node["__type__"] == "vfact.strict":
            continue
        if entry["name"] != node["__type__"]:
            problems.append("node %s at %r: factory %s called, configured %s" % (nid, path, entry["name"], node["__type__"]))
        want_args = node.get("__args__", [])
        if type(entry["args"]) is not tuple or len(entry["args"]) != len(want_args):
            problems.append("node %s at %r: positional arguments %r, configured %r" % (nid, path, entry["args"], want_args))
        else:
            for i, a in enumerate(want_args):
                match(entry["args"][i], a, products, problems, "%s.__args__[%s]" % (path, i))
        want_kw = {k: v for k, v in node.items() if k not in ("__type__", "__args__")}
        if case.get("extra") and node is tree:
            want_kw = dict(want_kw, **case["extra"])  # the root element, and only it, gets the extra keywords
        if set(entry["kwargs"]) != set(want_kw):
            problems.append("node %s at %r: keywords %r, configured %r" % (nid, path, sorted(entry["kwargs"]), sorted(want_kw)))
        else:
            for k, v in want_kw.items():
                match(entry["kwargs"][k], v, products, problems, "%s.%s" % (path, k))
    # ordering
    pairs = []
    order_constraints(tree, pairs)
    for a, b in pairs:
        if a in position and b in position and not position[a] < position[b]:
            problems.append("node %s was constructed before node %s (children first; later list items first)" % (b, a))
            break
        if b in position and a not in position:
            problems.append("node %s was constructed although node %s, which must precede it, never was" % (b, a))
            break
    result.count("order_constraints_checked", len(pairs))
    if fail is None:
        if err is not None:
            problems.append("valid tree rejected: %r (where=%r)" % (err, err.where))
        else:
            result.count("valid_trees")
            result.count("nodes_constructed", len(seen))
            if set(seen) != set(by_nid):
                problems.append("nodes never constructed: %r" % sorted(set(by_nid) - set(seen)))
            match(out, tree, products, problems, case["where"])
    else:
        node, path = by_nid[fail["nid"]]
        result.count("failing_trees")
        result.count("failing_%s" % fail["kind"])
        if fail.get("inner_nid") is not None:
            node, path = by_nid[fail["inner_nid"]]  # children are translated first: the inner failure is the one that is met
            result.count("failing_trees_with_nested_second_failure")
        if err is None:
            problems.append("tree with a failing node (%s at %r) was accepted" % (fail["kind"], path))
        else:
            if err.where != path:
                problems.append("failing node (%s) is at %r, error reports %r" % (fail["kind"], path, err.where))
            # no ancestor (anything that has the failing node in its subtree) may exist
            for n, p in nodes:
                if n is not node and node["nid"] in subtree_nids(n) and n["nid"] in seen:
                    problems.append("ancestor %r of the failing node was constructed" % p)
                    break
            if not problems:
                # the mistake is corrected in place and the very same objects are translated again by the same translator:
                # a refused configuration leaves nothing behind
                for nid in (fail["nid"], fail.get("inner_nid")):
                    if nid is not None:
                        broken = by_nid[nid][0]
                        broken["__type__"] = "vfact.make"
                        if fail["kind"] == "wrong_args":
                            for key in ("__args__", "zzz"):
                                broken.pop(key, None)
                faclog.reset()
                try:
                    translator.translate_hierarchy(tree, **kwargs)
                except Exception as e:  # noqa: B902
                    problems.append("after the failing node (%s at %r) was corrected in place, the same translator refused the tree: %r" % (fail["kind"], path, e))
                else:
                    again = [entry["kwargs"].get("nid") for entry in faclog.LOG]
                    if sorted(again, key=repr) != sorted(by_nid, key=repr):
                        problems.append("after the failing node was corrected in place, retranslation constructed nodes %r, the tree has %r" % (sorted(again, key=repr), sorted(by_nid, key=repr)))
                    result.count("corrected_trees_retranslated_by_the_same_translator")
    return [(p, None) for p in problems[:3]]


def execute_shared(case, tree, result):
    """A container reachable at two positions: every position gets its own construction."""
    from cobald.daemon.config.mapping import Translator

    nodes = type_nodes(tree, case["where"])
    occurrences = {}
    for n, path in nodes:
        occurrences.setdefault(n["nid"], []).append(path)
    kwargs = {"where": case["where"]} if case["where"] else {}
    import copy

    untouched = copy.deepcopy(tree)
    try:
        out = Translator().translate_hierarchy(tree, **kwargs)
    except Exception as e:  # noqa: B902
        return [("valid tree with a shared container rejected: %r" % (e,), None)]
    try:
        same = tree == untouched
    except Exception:  # noqa: B902
        same = False
    if not same:
        return [("translate_hierarchy changed the structure it was given (definitions in it were replaced by what they construct)", None)]
    calls = {}
    for entry in faclog.LOG:
        calls.setdefault(entry["kwargs"].get("nid"), []).append(entry["product"])
    problems = []
    for nid, paths in occurrences.items():
        made = calls.get(nid, [])
        if len(made) != len(paths):
            problems.append(("node %s occurs at %d positions %r but its factory was called %d time(s)" % (nid, len(paths), paths[:3], len(made)), None))
    # the results at the two positions are distinct objects built by the right factories
    found = []

    def walk(value, original):
        if isinstance(original, dict) and "__type__" in original:
            found.append((original["nid"], value))
            return
        if isinstance(original, dict) and isinstance(value, dict):
            for k in original:
                if k in value:
                    walk(value[k], original[k])
        elif isinstance(original, list) and isinstance(value, list):
            for a, b in zip(value, original):
                walk(a, b)

    walk(out, tree)
    seen = {}
    for nid, obj in found:
        if isinstance(obj, dict) and not obj.get("quoted"):  # (give_quoted's product is a mapping on purpose)
            problems.append(("a __type__ mapping of node %s was left untranslated at one of its positions" % nid, None))
        elif id(obj) in seen:
            problems.append(("two positions of node %s share one constructed object" % nid, None))
        seen[id(obj)] = nid
    result.count("trees_with_shared_container")
    if any(len(p) > 1 for p in occurrences.values()):
        result.count("shared_type_nodes_checked", sum(1 for p in occurrences.values() if len(p) > 1))
    return problems[:3]


def nontrivial(case):
    if "foreign" in case or "pipeline" in case:
        return True
    return len(type_nodes(case["tree"])) >= 2


def run_shard(spec):
    result = core.Result()
    pr = probe.LineProbe("daemon/config/mapping.py").start()
    try:
        core.drive(PID, spec, gen_case, execute, result, nontrivial=nontrivial)
    finally:
        pr.stop()
    pr.record(result)
    return result


def finish(total, tier):
    needed = ["valid_trees", "trees_of_dict_and_list_subclasses", "pipelines_with_an_element_that_cannot_be_chained", "pipelines_translated_by_the_pipeline_translator", "failing_pipeline_elements_located", "definitions_naming_builtin_or_derived_types_or_one_shot_arguments", "corrected_trees_retranslated_by_the_same_translator", "failing_trees", "lists_with_equal_items_of_which_the_later_fails", "failing_trees_with_nested_second_failure", "nodes_constructed", "order_constraints_checked", "cases_with_fresh_imports",
              "translations_with_extra_construct_keywords",
              "trees_with_shared_container", "shared_type_nodes_checked"]
    needed += ["failing_" + k for k in FAILURES]
    for name in needed:
        if not total.counters.get(name) and not total.violations:
            total.inconc("monitor never observed: " + name)
