"""C09 - periodic services act once per interval, for as long as they run.

Monitor (E2): the real run() coroutine of every shipped periodic service runs under trio's
MockClock next to a scripted environment; recording pools timestamp every read and write
with the virtual clock; the oracle compares the timestamps with start + k*interval.
"""
import weakref

from vlib import core, probe, vt
from vlib.doubles import RecPool

PID = "C09"

META = {
    "level": "exploration",
    "engine": "E2 virtual time (trio MockClock, timestamping recording pools)",
    "rule": (
        "seeded random runs of LinearController, RelativeSupplyController, Stepwise, DemandSwitch, Buffer and "
        "FactoryPool services: dyadic intervals/windows 0.25..64 (15 % of the controller runs use intervals such as 0.1, 0.3, 1/3, 1.1 instead; there only the number and approximate times of the steps are judged), start times that are and are not multiples of "
        "the interval, run lengths 0.5..300 intervals plus a few long runs (2500 intervals in the quick, 10^4 in the thorough tier), (a quarter of the Buffer runs: one write per window alternating between two values a hair apart; 30 % of the FactoryPool runs: children only the pool references), 0-60 timed environment "
        "actions (pool state changes, demand writes through the Buffer, outside changes of the Buffer's target, "
        "demand writes to the FactoryPool) placed strictly between period boundaries or exactly on them. "
        "Non-trivial = run of >= 3 periods; distinct by content."
    ),
    "assumptions": [
        "'indefinitely' is restated as: exact step count for the whole (bounded) run and the loop still alive when cancelled",
        "for an action scheduled exactly on a boundary either order of service step and action is accepted",
        "pools are well-behaved (store demand, never raise)",
    ],
    "shard_timeout": {"quick": 300, "thorough": 1800},
}
KINDS = ["linear", "relative", "stepwise", "switch", "buffer", "factory"]


def plan(tier, seed):
    big = tier == "thorough"
    specs = []
    for kind in KINDS:
        for s in core.shards(seed, 3000 if big else 200, 2 if big else 1, kind=kind, long=big):
            s["shard"] = "%s-%s" % (kind, s["shard"])
            specs.append(s)
    return specs


def gen_case(rnd, spec):
    kind = spec["kind"]
    interval = rnd.choice([0.25, 0.5, 1, 1, 2, 3.5, 5, 10, 30, 64])
    start = rnd.choice([0, 0, interval * 3, 0.125, 204, 317.5, interval / 2, interval * 7 + 0.25])
    periods = rnd.choice([0.5, 1.5, 3.5, 7.25, 12.5, 40.5, 100.5, 300.5])
    if spec.get("long") and rnd.random() < 0.02:
        periods = 10000.5
    elif not spec.get("long") and spec.get("case_index") in (0, 1):
        periods = 2500.5  # one or two long runs per service kind also in the quick tier
    fractional = kind in ("linear", "relative", "stepwise", "switch") and rnd.random() < 0.15
    if fractional:
        # intervals without an exact binary representation: the step times are compared with a tolerance, nothing else is
        interval = rnd.choice([0.1, 0.3, 0.7, 1.1, 1 / 3, 2.2])
        start = rnd.choice([0, 0, 1000, 1234.5, 0.1, 86400.7])
        periods = rnd.choice([1.5, 3.5, 7.5, 12.5, 40.5, 100.5])
    n_actions = 0 if fractional else rnd.randint(0, 60) if periods > 3 else rnd.randint(0, 6)
    actions = []
    for _ in range(n_actions):
        k = rnd.randint(0, int(periods))
        frac = rnd.choice([0, 0.125, 0.25, 0.5, 0.5, 0.75, 0.875])
        t = start + (k + frac) * interval
        if t >= start + periods * interval:
            continue
        if kind in ("linear", "relative", "stepwise", "switch"):
            act = ["state", rnd.randint(0, 8) / 8, rnd.randint(0, 8) / 8, rnd.randint(0, 40)]
        elif kind == "buffer":
            act = rnd.choice([["write", rnd.randint(0, 50)], ["write", rnd.randint(0, 50)], ["outside", rnd.randint(0, 50)]])

        else:
            act = rnd.choice([["demand", rnd.randint(0, 30)], ["child_zero", rnd.randint(0, 5)], ["child_supply", rnd.randint(0, 5), rnd.randint(0, 6)]])
        actions.append([t, frac == 0, act])
    near = None
    if kind == "buffer" and rnd.random() < 0.25 and periods <= 400:
        # one write per window, alternating between two values that differ by a hair: a change is a change
        near = rnd.choice([[1e10, 1e10 + 1], [4e9, 4e9 + 1.5], [0.3, 0.1 + 0.2], [2.0**53, 2.0**53 + 2], [1.0, 1.0 + 2**-40]])
        actions = [[start + (k + 0.5) * interval, False, ["write", near[k % 2]]] for k in range(int(periods))]
    actions.sort(key=lambda a: a[0])
    params = {}
    if kind == "linear":
        params = {"rate": rnd.choice([1, 2, 0.5, 4]), "low_utilisation": 0.5, "high_allocation": rnd.choice([0.5, 0.75])}
    elif kind == "factory":
        params = {"initial": rnd.randint(0, 3), "sizes": rnd.choice([[1], [2], [1, 3], [1, 2, 5]]), "weak": rnd.random() < 0.3}
    elif kind == "buffer":
        # the pending value may differ from the target's demand when the service starts
        params = {"prestart": rnd.choice([None, None, ["write", rnd.randint(0, 50)], ["outside", rnd.randint(0, 50)]])}
    elif kind == "switch":
        params = {"slave_interval": rnd.choice([1, 7, 0.5, 10]), "start_demand": rnd.choice([10, 20, 40, 29, 31]), "two_slaves": rnd.random() < 0.5}
    return {"kind": kind, "interval": interval, "start": start, "periods": periods, "actions": actions, "params": params, "fractional": fractional, "near": near,
            "default_interval": kind not in ("buffer", "factory") and interval == 1 and rnd.random() < 0.5}


def rnd_slave_interval(case):
    return case["params"].get("slave_interval", 1)


def on_grid(t, start, interval, first=0):
    """Is t == start + k*interval for an integer k >= first?  (dyadic numbers: exact)"""
    k = (t - start) / interval
    return k == int(k) and k >= first


def execute(case, result):
    import trio
    from cobald.controller.linear import LinearController
    from cobald.controller.relative_supply import RelativeSupplyController
    from cobald.controller.stepwise import Stepwise
    from cobald.controller.switch import DemandSwitch
    from cobald.decorator.buffer import Buffer
    from cobald.composite.factory import FactoryPool
    from cobald.interfaces import Controller

    kind, interval, start = case["kind"], case["interval"], case["start"]
    until = start + case["periods"] * interval
    pool = RecPool(demand=10, supply=10, utilisation=0.5, allocation=0.5, clock=vt.clock)
    pool.max_log = 60 * (int(case["periods"]) + 10) + 5000  # far more accesses than one step per interval can make
    steps = []  # virtual times at which a regulation step was observed
    kw = {} if case["default_interval"] else {"interval": interval}
    children = []
    factory_calls = []
    if kind == "linear":
        svc = LinearController(pool, **case["params"], **kw)
    elif kind == "relative":
        svc = RelativeSupplyController(pool, **kw)
    elif kind == "stepwise":
        returned = []  # (time, value) of every rule call

        chosen = []  # (time, rule, supply at the call)

        def base(p, itv):
            steps.append((vt.clock(), itv))
            supply = p.peek()["supply"]
            chosen.append((vt.clock(), "base", supply))
            value = None if supply % 2 else (0 if supply % 3 == 0 else p.peek()["demand"] + 1)
            returned.append((vt.clock(), value))
            return value

        def upper(p, itv):
            steps.append((vt.clock(), itv))
            chosen.append((vt.clock(), "upper", p.peek()["supply"]))
            value = 0.0 if p.peek()["supply"] % 5 == 0 else 5
            returned.append((vt.clock(), value))
            return value

        # the same service by every route the module offers: the class itself, the decorator skeleton called like a
        # controller (with the interval by keyword, positionally or left out), and the skeleton's template put in front of the pool
        route = ["class", "skeleton", "skeleton_positional", "template"][(len(case["actions"]) + int(case["periods"])) % 4]
        if not kw:
            route = ["skeleton", "template", "skeleton", "class"][(len(case["actions"]) + int(case["periods"])) % 4]  # the interval left out: mostly by the skeleton
        if route == "class":
            svc = Stepwise(pool, base, (20, upper), **kw)
        else:
            from cobald.controller.stepwise import stepwise

            control = stepwise(base)
            control.add(upper, supply=20)
            if route == "skeleton":
                svc = control(pool, **kw)
            elif route == "skeleton_positional":
                svc = control(pool, *kw.values())
            else:
                svc = control.s(**kw) >> pool
            if type(svc) is not Stepwise:
                return [("the stepwise skeleton built %r, not a Stepwise controller" % (svc,), None)]
        result.count("stepwise_services_built_by_route_%s%s" % (route, "_with_the_default_interval" if not kw else ""))
    elif kind == "switch":
        class Rec(Controller):
            def regulate(self, itv):
                steps.append((vt.clock(), itv))

        # the slave has an interval of its own: steps must still be sized by the switch's period
        slaves = [15, LinearController(None, rate=1, interval=rnd_slave_interval(case))]
        if case["params"].get("two_slaves"):
            # a second slave takes over from demand 30: exactly one of them acts per step
            slaves += [30, LinearController(None, rate=2, interval=rnd_slave_interval(case))]
            result.count("switch_runs_with_two_slaves")
        svc = DemandSwitch(pool, Rec(None), *slaves, **kw)
        pool.poke(demand=case["params"].get("start_demand", 10))
    elif kind == "buffer":
        svc = Buffer(pool, window=interval)
        pre = case["params"].get("prestart")
        if pre and pre[0] == "write":
            svc.demand = pre[1]
        elif pre:
            pool.poke(demand=pre[1])
    else:
        sizes = case["params"]["sizes"]

        weak_refs, weak_last = [], []

        def factory():
            child = RecPool(demand=sizes[len(factory_calls) % len(sizes)], supply=0, clock=vt.clock)
            factory_calls.append(vt.clock())
            if case["params"].get("weak"):
                # nobody but the pool holds on to this child; the harness keeps a weak reference and the last demand written
                i = len(weak_refs)
                weak_last.append(child.peek()["demand"])
                child.on_write = lambda _self, value, i=i: weak_last.__setitem__(i, value)
                weak_refs.append(weakref.ref(child))
            else:
                children.append(child)
            return child

        initial = [RecPool(demand=1, supply=1, clock=vt.clock) for _ in range(case["params"]["initial"])]
        children.extend(initial)
        svc = FactoryPool(*initial, factory=factory, interval=interval)

    buffer_writes = []  # (time, value, on_boundary) written to the Buffer by the environment
    script = []

    def make(t, on_boundary, act):
        def run():
            if act[0] == "state":
                pool.poke(utilisation=act[1], allocation=act[2], supply=act[3])
            elif act[0] == "write":
                svc.demand = act[1]
                buffer_writes.append((t, act[1], on_boundary))
            elif act[0] == "outside":
                pool.poke(demand=act[1])
            elif act[0] == "demand":
                svc.demand = act[1]
            elif act[0] == "child_zero" and children:
                children[act[1] % len(children)].poke(demand=0)
            elif act[0] == "child_supply" and children:
                children[act[1] % len(children)].poke(supply=act[2])
        return run

    for t, on_boundary, act in case["actions"]:
        script.append((t, make(t, on_boundary, act)))
    # Buffer / FactoryPool: observe shortly after every boundary
    snapshots = []
    n_periods = int(case["periods"])
    fsnaps = {}
    if kind == "factory" and n_periods <= 400 and hasattr(svc, "_hatchery"):
        def fsnap(tag, k):
            def act():
                # the children known to the harness plus those only the pool holds (weak mode), taken from the pool for this instant
                kids = list(children) + [c for c in list(svc._hatchery) + list(svc._mortuary) if not any(c is k_ for k_ in children)]
                fsnaps[(tag, k)] = {"hatchery": set(map(id, svc._hatchery)), "demand": {id(c): c.peek()["demand"] for c in kids},
                                    "request": svc.demand, "supply": sum(c.peek()["supply"] for c in kids)}
            return act
        for k in range(1, n_periods + 1):
            b = start + k * interval
            if b + interval / 16 < until:
                script.append((b - interval / 16, fsnap("before", k)))
                script.append((b + interval / 16, fsnap("after", k)))
    if kind == "buffer" and n_periods <= 400:
        for k in range(0, n_periods + 1):
            b = start + k * interval
            if b + interval / 16 < until:
                script.append((b + interval / 16, (lambda b=b: snapshots.append((b, pool.peek()["demand"])))))
    pool.log.clear()
    out = vt.run_virtual([svc], script, until=until, start=start)
    problems = []

    def bad(msg):
        problems.append(("%s interval %r start %r: %s" % (kind, interval, start, msg), None))

    if out.errors:
        bad("run() raised %r" % (out.errors[0][1],))
        return problems
    if out.returned or not out.alive_at_end:
        bad("run() ended before the service was cancelled")
        return problems
    result.count("%s_runs" % kind)
    if case.get("near"):
        result.count("buffer_writes_of_nearly_equal_values", len(case["actions"]))
    expected_steps = [start + k * interval for k in range(0, n_periods + 1) if start + k * interval < until]
    if kind in ("linear", "relative", "stepwise", "switch"):
        if kind in ("linear", "relative"):
            times = [e[3] for e in pool.log if e[0] == "r" and e[1] == "utilisation"]
        else:
            times = [t for t, _ in steps]
            if kind == "switch":  # a step is either a call of the recording default or a utilisation read by the real slave
                times = sorted(times + [e[3] for e in pool.log if e[0] == "r" and e[1] == "utilisation"])
            if any(itv != interval for _, itv in steps):
                bad("steps performed with interval %r" % sorted({itv for _, itv in steps}))
        if case.get("fractional"):
            result.count("runs_with_intervals_that_are_not_dyadic")
            close = len(times) == len(expected_steps) and all(abs(t - e) <= 1e-9 * max(1.0, abs(e)) for t, e in zip(times, expected_steps))
            if not close:
                bad("steps at %r..., expected one per interval at about %r... (%d vs %d steps)" % (times[:6], expected_steps[:6], len(times), len(expected_steps)))
            result.count("steps_checked", len(times))
            return problems
        if times != expected_steps:
            bad("steps at %r..., expected one at start + k*interval: %r... (%d vs %d steps)"
                % (times[:6], expected_steps[:6], len(times), len(expected_steps)))
        result.count("steps_checked", len(times))
        if kind == "stepwise":
            for when, rule, supply in chosen:
                want = "upper" if supply >= 20 else "base"
                if rule != want:
                    bad("the step at %r applied the %s rule although the supply was %r (threshold 20)" % (when, rule, supply))
                    break
                result.count("stepwise_rule_choices_checked")
            writes = {e[3]: e[2] for e in pool.log if e[0] == "w"}
            for when, value in returned:
                if value is None:
                    if when in writes:
                        bad("the step at %r wrote %r although its rule returned None" % (when, writes[when]))
                        break
                elif when not in writes or writes[when] != value or type(writes[when]) is not type(value):
                    bad("the step at %r computed demand %r but the pool received %r" % (when, value, writes.get(when, "nothing")))
                    break
                result.count("stepwise_step_effects_checked")
        if kind == "switch":
            series = [(start, case["params"].get("start_demand", 10))] + [(e[3], e[2]) for e in pool.log if e[0] == "w"]
            for (ta, da), (tb, db) in zip(series, series[1:]):
                result.count("switch_slave_steps_checked")
                rate = 2 if case["params"].get("two_slaves") and da >= 30 else 1
                if abs(db - da) != interval * rate:
                    bad("the slave controller stepped by %r from demand %r, rate x the switch's interval is %r" % (db - da, da, interval * rate))
                    break
                if not on_grid(tb, start, interval):
                    bad("the slave controller acted at %r, not on the switch's period" % tb)
                    break
        if kind == "linear":
            rate = case["params"]["rate"]
            series = [(start, 10)] + [(e[3], e[2]) for e in pool.log if e[0] == "w"]
            for (ta, da), (tb, db) in zip(series, series[1:]):
                if abs(db - da) != rate * interval:
                    bad("a step changed demand by %r, rate x interval is %r" % (db - da, rate * interval))
                    break
            # |demand(t2) - demand(t1)| <= rate * (t2 - t1 + interval) over all observed pairs
            pts = series[-400:]
            worst = None
            for i in range(len(pts)):
                for j in range(i + 1, len(pts)):
                    if abs(pts[j][1] - pts[i][1]) > rate * (pts[j][0] - pts[i][0] + interval):
                        worst = (pts[i], pts[j])
                        break
                if worst:
                    break
            if worst:
                bad("demand moved from %r to %r: more than rate x (span + interval)" % worst)
            result.count("linear_pairs_checked", len(pts) * (len(pts) - 1) // 2)
    elif kind == "buffer":
        writes = [(e[3], e[2]) for e in pool.log if e[0] == "w"]
        for t, v in writes:
            if not on_grid(t, start, interval):
                bad("the target was written at %r, which is not a window boundary" % t)
                break
        result.count("buffer_target_writes", len(writes))
        initial = 10
        pre = case["params"].get("prestart")
        if pre and pre[0] == "write":
            initial = pre[1]  # written to the Buffer before its service started: due at the very first boundary
            result.count("buffer_runs_with_pending_value_at_start")
        for b, seen in snapshots:
            before = [v for t, v, _ in buffer_writes if t < b]
            at = [v for t, v, _ in buffer_writes if t == b]
            accept = {before[-1] if before else initial}
            # actions scheduled exactly on the boundary may each run before or after the flush
            accept |= set(at)
            outside_at = [a[2][1] for a in case["actions"] if a[0] == b and a[2][0] == "outside"]
            accept |= set(outside_at)
            if seen not in accept:
                bad("after the boundary at %r the target's demand is %r, the value last written to the Buffer is %r"
                    % (b, seen, sorted(accept)))
                break
            result.count("buffer_boundaries_checked")
    else:
        for t in factory_calls:
            if not on_grid(t, start, interval, first=1):
                bad("factory called at %r: not an adjustment time start + k*interval, k >= 1" % t)
                break
        touched = sorted({e[3] for c in children for e in c.log if e[3] is not None})
        for t in touched:
            if not on_grid(t, start, interval, first=1):
                bad("children were inspected/adjusted at %r: not an adjustment time" % t)
                break
        want = [b for b in expected_steps[1:]]
        if children and n_periods >= 1:
            missing = [b for b in want if b not in touched and any(True for c in children)]
            # children created later cannot be read earlier; only require boundaries after the first child existed
            first_child_time = start if case["params"]["initial"] else (factory_calls[0] if factory_calls else None)
            missing = [b for b in missing if first_child_time is not None and b > first_child_time]
            if missing:
                bad("no adjustment at %r although children exist" % missing[:4])
        for (tag, k), before in sorted(fsnaps.items(), key=lambda kv: kv[0][1]):
            after = fsnaps.get(("after", k))
            if tag != "before" or after is None:
                continue
            if any(a[0] == start + k * interval for a in case["actions"]):
                continue  # an action exactly on this boundary may run before or after the adjustment
            idle = [i for i in before["hatchery"] if before["demand"].get(i, 1) <= 0]
            missing = before["request"] - sum(before["demand"].values())
            if idle and any(i in after["hatchery"] for i in idle):
                bad("adjustment %d left a child without demand active" % k)
                break
            if missing > 0 and before["supply"] <= before["request"] and sum(after["demand"].values()) < before["request"]:
                bad("adjustment %d did not spawn although %r demand was missing" % (k, missing))
                break
            released = [i for i in before["hatchery"] - after["hatchery"] if before["demand"].get(i, 0) > 0]
            active_after = sum(after["demand"].get(i, 0) for i in after["hatchery"])
            if released and active_after < after["request"]:
                bad("adjustment %d released %d child(ren) that still had demand although the remaining active demand %r does not cover the request %r"
                    % (k, len(released), active_after, after["request"]))
                break
            if released:
                result.count("factory_releases_checked")
            if idle or missing > 0:
                result.count("factory_needed_adjustments_observed")
        if case["params"].get("weak"):
            import gc

            gc.collect()
            gone = [i for i, r in enumerate(weak_refs) if r() is None and weak_last[i] != 0]
            if gone:
                bad("children %s made by the factory vanished between adjustments although they still had demand %s and were never "
                    "released (only the pool held them)" % (gone[:5], [weak_last[i] for i in gone[:5]]))
            result.count("factory_runs_with_children_only_the_pool_holds")
        result.count("factory_adjustments_checked", len(touched))
        result.count("factory_children_spawned", len(factory_calls))
    return problems


def nontrivial(case):
    return case["periods"] >= 3


def run_shard(spec):
    result = core.Result()
    pr = probe.LineProbe("controller/linear.py", "controller/relative_supply.py", "controller/stepwise.py",
                         "controller/switch.py", "decorator/buffer.py", "composite/factory.py").start()
    try:
        core.drive(PID, spec, gen_case, execute, result, nontrivial=nontrivial)
    finally:
        pr.stop()
    pr.record(result)
    return result


def finish(total, tier):
    need = ["%s_runs" % k for k in KINDS] + ["steps_checked", "linear_pairs_checked", "buffer_target_writes",
                                              "buffer_boundaries_checked", "factory_adjustments_checked", "factory_children_spawned",
                                              "factory_needed_adjustments_observed", "switch_slave_steps_checked", "stepwise_step_effects_checked",
                                              "buffer_runs_with_pending_value_at_start", "runs_with_intervals_that_are_not_dyadic", "factory_runs_with_children_only_the_pool_holds",
                                              "buffer_writes_of_nearly_equal_values", "switch_runs_with_two_slaves", "stepwise_rule_choices_checked", "factory_releases_checked"]
    for name in need:
        if not total.counters.get(name) and not total.violations:
            total.inconc("monitor never observed: " + name)
